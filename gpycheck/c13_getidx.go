package main

import (
	"fmt"
	"go/ast"
	"go/token"
	"go/types"
	"sort"
	"strings"
)

// C13.R2, decided by abstract interpretation instead of by the shape of the statements.
//
// Slice.GetIndices is integer code without loops: assignments, comparisons of linear expressions, ifs. The rule
// interprets it over linear forms in three symbols — the length L and the values vS, vE that the bound conversion
// answers for Start and Stop — under a partition of the inputs into the regions in which Python's definition is one
// linear form each:
//
//	step:   absent | negative | positive
//	bound:  absent | v >= L | 0 <= v < L | -L <= v < 0 | v < -L
//
// A state carries the region as linear constraints; a condition is taken in the directions that are feasible with
// them (Fourier–Motzkin elimination over the rationals, exact enough here: all coefficients are ±1), adding the
// condition to the constraints. Conditions on values the interpretation does not track (the slice length, which needs
// a division) fork without constraints — an over-approximation. Every path that does not return an error must leave
// in `start` (and `stop`) the linear form Python defines for that region [sliceobject.c PySlice_GetIndicesEx]:
//
//	absent           -> L-1 / -1 for a negative step (start / stop), 0 / L otherwise
//	v >= L           -> L-1 for a negative step, L otherwise
//	0 <= v < L       -> v
//	-L <= v < 0      -> v + L
//	v < -L           -> -1 for a negative step, 0 otherwise
//
// Helpers of package py introduced since the reference are interpreted too (their parameters bound to the arguments);
// a call that converts r.Start / r.Stop / r.Step answers that field's symbol. Nothing about the way the code is
// written is assumed beyond that; a construct the interpretation does not cover (a loop, a call it cannot see through
// that produces a bound) is reported as undecided.

type giVal struct {
	l     *lin   // integer value as a linear form; nil if not tracked
	field string // "Start", "Stop", "Step": the slice's field object
	none  bool   // the None object
	isNil bool   // nil (an absent error)
	errV  bool   // some non-nil error
	b     *bool  // known boolean
}

type giState struct {
	vars map[types.Object]giVal
	cons []*lin // each >= 0
	und  []string
}

func (s *giState) clone() *giState {
	o := &giState{vars: make(map[types.Object]giVal, len(s.vars)), cons: append([]*lin(nil), s.cons...), und: append([]string(nil), s.und...)}
	for k, v := range s.vars {
		o.vars[k] = v
	}
	return o
}

// fmFeasible: the conjunction of  c >= 0  has a rational solution.
func fmFeasible(cons []*lin) bool {
	var sym string
	for _, c := range cons {
		if c.isConst() {
			if c.c < 0 {
				return false
			}
			continue
		}
		if sym == "" {
			ks := make([]string, 0, len(c.t))
			for k := range c.t {
				ks = append(ks, k)
			}
			sort.Strings(ks)
			sym = ks[0]
		}
	}
	if sym == "" {
		return true
	}
	var pos, neg, rest []*lin
	for _, c := range cons {
		switch k := c.coef(sym); {
		case k > 0:
			pos = append(pos, c)
		case k < 0:
			neg = append(neg, c)
		default:
			if !c.isConst() {
				rest = append(rest, c)
			}
		}
	}
	for _, p := range pos {
		for _, n := range neg {
			rest = append(rest, p.scale(-n.coef(sym)).add(n.scale(p.coef(sym))))
		}
	}
	if len(rest) > 400 {
		return true // give up: feasible is the safe answer (both directions are explored)
	}
	return fmFeasible(rest)
}

type giCase struct {
	stepCase  string // "none", "neg", "pos"
	startCase string // "none", "hi", "in", "negin", "lo"
	stopCase  string
}

type giEval struct {
	c      *Ctx
	info   *types.Info
	pkg    *types.Package
	recv   types.Object
	length types.Object
	cs     giCase
	depth  int
	steps  int
}

type giEv struct {
	st *giState
	v  giVal
}

type giRet struct {
	st   *giState
	vals []giVal
}

func (g *giEval) noneOf(field string) bool {
	switch field {
	case "Start":
		return g.cs.startCase == "none"
	case "Stop":
		return g.cs.stopCase == "none"
	case "Step":
		return g.cs.stepCase == "none"
	}
	return false
}

func (g *giEval) symOf(field string) *lin {
	switch field {
	case "Start":
		return linSym("vS")
	case "Stop":
		return linSym("vE")
	}
	return linSym("vP")
}

func boolVal(b bool) giVal { return giVal{b: &b} }

// cond evaluates a condition: the states in which it is true and those in which it is false.
func (g *giEval) cond(e ast.Expr, st *giState) (t, f []*giState) {
	e = unparen(e)
	switch x := e.(type) {
	case *ast.UnaryExpr:
		if x.Op == token.NOT {
			f, t = g.cond(x.X, st)
			return
		}
	case *ast.BinaryExpr:
		switch x.Op {
		case token.LAND:
			t1, f1 := g.cond(x.X, st)
			for _, s := range t1 {
				t2, f2 := g.cond(x.Y, s)
				t = append(t, t2...)
				f = append(f, f2...)
			}
			f = append(f, f1...)
			return
		case token.LOR:
			t1, f1 := g.cond(x.X, st)
			t = append(t, t1...)
			for _, s := range f1 {
				t2, f2 := g.cond(x.Y, s)
				t = append(t, t2...)
				f = append(f, f2...)
			}
			return
		case token.EQL, token.NEQ, token.LSS, token.LEQ, token.GTR, token.GEQ:
			for _, a := range g.eval(x.X, st) {
				for _, b := range g.eval(x.Y, a.st) {
					tt, ff := g.compare(a.v, b.v, x.Op, b.st)
					t = append(t, tt...)
					f = append(f, ff...)
				}
			}
			return
		}
	}
	for _, r := range g.eval(e, st) {
		if r.v.b != nil {
			if *r.v.b {
				t = append(t, r.st)
			} else {
				f = append(f, r.st)
			}
			continue
		}
		t = append(t, r.st.clone())
		f = append(f, r.st)
	}
	return
}

func (g *giEval) compare(a, b giVal, op token.Token, st *giState) (t, f []*giState) {
	decide := func(v bool) {
		if v {
			t = append(t, st)
		} else {
			f = append(f, st)
		}
	}
	isEq := op == token.EQL
	if op == token.EQL || op == token.NEQ {
		// object identity with None, error against nil
		switch {
		case a.field != "" && b.none:
			decide(g.noneOf(a.field) == isEq)
			return
		case b.field != "" && a.none:
			decide(g.noneOf(b.field) == isEq)
			return
		case a.none && b.none, a.isNil && b.isNil:
			decide(isEq)
			return
		case a.isNil && b.errV, a.errV && b.isNil:
			decide(!isEq)
			return
		}
	}
	if a.l == nil || b.l == nil {
		// not tracked: both directions, nothing learnt
		return []*giState{st.clone()}, []*giState{st}
	}
	d := a.l.sub(b.l) // a - b
	with := func(cs ...*lin) *giState {
		if !fmFeasible(append(append([]*lin(nil), st.cons...), cs...)) {
			return nil
		}
		n := st.clone()
		n.cons = append(n.cons, cs...)
		return n
	}
	add := func(dst *[]*giState, s *giState) {
		if s != nil {
			*dst = append(*dst, s)
		}
	}
	lt := func() *giState { return with(d.scale(-1).add(linConst(-1))) } // a < b
	ge := func() *giState { return with(d) }                             // a >= b
	gt := func() *giState { return with(d.add(linConst(-1))) }           // a > b
	le := func() *giState { return with(d.scale(-1)) }                   // a <= b
	eq := func() *giState { return with(d, d.scale(-1)) }
	switch op {
	case token.LSS:
		add(&t, lt())
		add(&f, ge())
	case token.GEQ:
		add(&t, ge())
		add(&f, lt())
	case token.GTR:
		add(&t, gt())
		add(&f, le())
	case token.LEQ:
		add(&t, le())
		add(&f, gt())
	case token.EQL:
		add(&t, eq())
		add(&f, lt())
		add(&f, gt())
	case token.NEQ:
		add(&f, eq())
		add(&t, lt())
		add(&t, gt())
	}
	return
}

func (g *giEval) eval(e ast.Expr, st *giState) []giEv {
	e = unparen(e)
	if tv, ok := g.info.Types[e]; ok && tv.Value != nil {
		if k, ok := constToInt(tv); ok {
			// magnitudes beyond 2**40 (PY_SSIZE_T_MAX) stand for "huge": kept within range so that the elimination's
			// products cannot overflow; only their sign and their order against the symbols matter here
			const huge = int64(1) << 40
			if k > huge {
				k = huge
			} else if k < -huge {
				k = -huge
			}
			return []giEv{{st, giVal{l: linConst(k)}}}
		}
		if tv.Value.String() == "true" || tv.Value.String() == "false" {
			return []giEv{{st, boolVal(tv.Value.String() == "true")}}
		}
		return []giEv{{st, giVal{}}}
	}
	switch x := e.(type) {
	case *ast.Ident:
		if x.Name == "nil" {
			return []giEv{{st, giVal{isNil: true}}}
		}
		o := g.info.Uses[x]
		if o == nil {
			o = g.info.Defs[x]
		}
		if o != nil {
			if v, ok := st.vars[o]; ok {
				return []giEv{{st, v}}
			}
			if o.Pkg() == g.pkg && o.Name() == "None" && o.Parent() == g.pkg.Scope() {
				return []giEv{{st, giVal{none: true}}}
			}
		}
		return []giEv{{st, giVal{}}}
	case *ast.SelectorExpr:
		if id := identOf(x.X); id != nil {
			if v, ok := st.vars[g.info.Uses[id]]; ok && v.field == "recv" {
				switch x.Sel.Name {
				case "Start", "Stop", "Step":
					return []giEv{{st, giVal{field: x.Sel.Name}}}
				}
			}
		}
		return []giEv{{st, giVal{}}}
	case *ast.UnaryExpr:
		var out []giEv
		for _, r := range g.eval(x.X, st) {
			v := giVal{}
			if r.v.l != nil {
				switch x.Op {
				case token.SUB:
					v.l = r.v.l.scale(-1)
				case token.ADD:
					v.l = r.v.l
				}
			}
			if x.Op == token.NOT && r.v.b != nil {
				v = boolVal(!*r.v.b)
			}
			out = append(out, giEv{r.st, v})
		}
		return out
	case *ast.BinaryExpr:
		switch x.Op {
		case token.LAND, token.LOR, token.EQL, token.NEQ, token.LSS, token.LEQ, token.GTR, token.GEQ:
			t, f := g.cond(x, st)
			var out []giEv
			for _, s := range t {
				out = append(out, giEv{s, boolVal(true)})
			}
			for _, s := range f {
				out = append(out, giEv{s, boolVal(false)})
			}
			return out
		}
		var out []giEv
		for _, a := range g.eval(x.X, st) {
			for _, b := range g.eval(x.Y, a.st) {
				v := giVal{}
				if a.v.l != nil && b.v.l != nil {
					switch x.Op {
					case token.ADD:
						v.l = a.v.l.add(b.v.l)
					case token.SUB:
						v.l = a.v.l.sub(b.v.l)
					case token.MUL:
						if a.v.l.isConst() {
							v.l = b.v.l.scale(a.v.l.c)
						} else if b.v.l.isConst() {
							v.l = a.v.l.scale(b.v.l.c)
						}
					}
				}
				out = append(out, giEv{b.st, v})
			}
		}
		return out
	case *ast.CallExpr:
		var out []giEv
		for _, r := range g.call(x, st) {
			v := giVal{}
			if len(r.vals) > 0 {
				v = r.vals[0]
			}
			out = append(out, giEv{r.st, v})
		}
		return out
	}
	return []giEv{{st, giVal{}}}
}

// call: the results of a call in each state it can end in.
func (g *giEval) call(x *ast.CallExpr, st *giState) []giRet {
	// conversion
	if tv, ok := g.info.Types[x.Fun]; ok && tv.IsType() && len(x.Args) == 1 {
		var out []giRet
		for _, r := range g.eval(x.Args[0], st) {
			out = append(out, giRet{r.st, []giVal{r.v}})
		}
		return out
	}
	// arguments
	type argEv struct {
		st   *giState
		vals []giVal
	}
	cur := []argEv{{st, nil}}
	for _, a := range x.Args {
		var next []argEv
		for _, c := range cur {
			for _, r := range g.eval(a, c.st) {
				next = append(next, argEv{r.st, append(append([]giVal(nil), c.vals...), r.v)})
			}
		}
		cur = next
	}
	fn := Callee(g.info, x)
	nres := 1
	var sig *types.Signature
	if fn != nil {
		sig = fn.Type().(*types.Signature)
		nres = sig.Results().Len()
	}
	var out []giRet
	for _, c := range cur {
		// a conversion of one of the slice's fields to an int
		field := ""
		for _, v := range c.vals {
			if v.field == "Start" || v.field == "Stop" || v.field == "Step" {
				field = v.field
			}
		}
		fd := g.c.Decl(fn)
		inline := fn != nil && fn.Pkg() == g.pkg && fd != nil && fd.Body != nil && isNewFunc(FuncID(fn)) && g.depth < 4
		switch {
		case inline:
			out = append(out, g.inline(fd, sig, c.vals, c.st)...)
		case field != "" && sig != nil && nres >= 1 && isIntType(sig.Results().At(0).Type()):
			vals := make([]giVal, nres)
			vals[0] = giVal{l: g.symOf(field)}
			for i := 1; i < nres; i++ {
				vals[i] = giVal{isNil: true} // the error path of the conversion is not this rule's subject
			}
			out = append(out, giRet{c.st, vals})
		default:
			vals := make([]giVal, nres)
			if sig != nil {
				for i := 0; i < nres; i++ {
					if types.Identical(sig.Results().At(i).Type(), types.Universe.Lookup("error").Type()) {
						vals[i] = giVal{errV: true}
					}
				}
			}
			out = append(out, giRet{c.st, vals})
		}
	}
	return out
}

func isIntType(t types.Type) bool {
	b, ok := t.Underlying().(*types.Basic)
	return ok && b.Info()&types.IsInteger != 0
}

func (g *giEval) inline(fd *ast.FuncDecl, sig *types.Signature, args []giVal, st *giState) []giRet {
	n := st.clone()
	i := 0
	if fd.Recv != nil {
		return []giRet{{st, make([]giVal, sig.Results().Len())}}
	}
	for _, f := range fd.Type.Params.List {
		for _, nm := range f.Names {
			if i < len(args) {
				n.vars[g.info.Defs[nm]] = args[i]
			}
			i++
		}
	}
	g.depth++
	rets := g.fn(fd, n)
	g.depth--
	return rets
}

// fn interprets a function body; named results start at zero.
func (g *giEval) fn(fd *ast.FuncDecl, st *giState) []giRet {
	var results []types.Object
	if fd.Type.Results != nil {
		for _, f := range fd.Type.Results.List {
			for _, nm := range f.Names {
				o := g.info.Defs[nm]
				results = append(results, o)
				if isIntType(o.Type()) {
					st.vars[o] = giVal{l: linConst(0)}
				} else {
					st.vars[o] = giVal{isNil: true}
				}
			}
		}
	}
	fall, rets := g.stmts(fd.Body.List, []*giState{st}, results)
	for _, s := range fall {
		// falling off the end: only for functions without results
		rets = append(rets, giRet{s, nil})
	}
	return rets
}

func (g *giEval) stmts(list []ast.Stmt, sts []*giState, results []types.Object) (fall []*giState, rets []giRet) {
	cur := sts
	for _, s := range list {
		var next []*giState
		for _, st := range cur {
			g.steps++
			if g.steps > 200000 {
				st.und = append(st.und, "interpretation budget exceeded")
				rets = append(rets, giRet{st, nil})
				continue
			}
			f, r := g.stmt(s, st, results)
			next = append(next, f...)
			rets = append(rets, r...)
		}
		cur = next
	}
	return cur, rets
}

func (g *giEval) assign(l ast.Expr, v giVal, st *giState) {
	id := identOf(l)
	if id == nil {
		return
	}
	if id.Name == "_" {
		return
	}
	o := g.info.Defs[id]
	if o == nil {
		o = g.info.Uses[id]
	}
	if o != nil {
		st.vars[o] = v
	}
}

func (g *giEval) stmt(s ast.Stmt, st *giState, results []types.Object) (fall []*giState, rets []giRet) {
	switch x := s.(type) {
	case *ast.EmptyStmt:
		return []*giState{st}, nil
	case *ast.BlockStmt:
		return g.stmts(x.List, []*giState{st}, results)
	case *ast.LabeledStmt:
		return g.stmt(x.Stmt, st, results)
	case *ast.DeclStmt:
		gd, ok := x.Decl.(*ast.GenDecl)
		if !ok || gd.Tok != token.VAR {
			return []*giState{st}, nil
		}
		cur := []*giState{st}
		for _, sp := range gd.Specs {
			vs := sp.(*ast.ValueSpec)
			for i, nm := range vs.Names {
				var next []*giState
				for _, c := range cur {
					if i < len(vs.Values) {
						for _, r := range g.eval(vs.Values[i], c) {
							g.assign(nm, r.v, r.st)
							next = append(next, r.st)
						}
						continue
					}
					o := g.info.Defs[nm]
					switch {
					case o != nil && isIntType(o.Type()):
						c.vars[o] = giVal{l: linConst(0)}
					case o != nil:
						c.vars[o] = giVal{isNil: true}
					}
					next = append(next, c)
				}
				cur = next
			}
		}
		return cur, nil
	case *ast.ExprStmt:
		var out []*giState
		for _, r := range g.eval(x.X, st) {
			out = append(out, r.st)
		}
		return out, nil
	case *ast.IncDecStmt:
		for _, r := range g.eval(x.X, st) {
			v := giVal{}
			if r.v.l != nil {
				k := int64(1)
				if x.Tok == token.DEC {
					k = -1
				}
				v.l = r.v.l.add(linConst(k))
			}
			g.assign(x.X, v, r.st)
			fall = append(fall, r.st)
		}
		return
	case *ast.AssignStmt:
		if len(x.Rhs) == 1 && len(x.Lhs) > 1 {
			if call, ok := unparen(x.Rhs[0]).(*ast.CallExpr); ok {
				for _, r := range g.call(call, st) {
					if len(r.st.und) == 0 || true {
						for i, l := range x.Lhs {
							v := giVal{}
							if i < len(r.vals) {
								v = r.vals[i]
							}
							g.assign(l, v, r.st)
						}
					}
					fall = append(fall, r.st)
				}
				return
			}
			for _, l := range x.Lhs {
				g.assign(l, giVal{}, st)
			}
			return []*giState{st}, nil
		}
		type acc struct {
			st *giState
			vs []giVal
		}
		cur := []acc{{st, nil}}
		for i, rh := range x.Rhs {
			var next []acc
			for _, a := range cur {
				for _, r := range g.eval(rh, a.st) {
					v := r.v
					if x.Tok != token.ASSIGN && x.Tok != token.DEFINE {
						// compound assignment
						old := g.eval(x.Lhs[i], r.st)[0].v
						nv := giVal{}
						if old.l != nil && v.l != nil {
							switch x.Tok {
							case token.ADD_ASSIGN:
								nv.l = old.l.add(v.l)
							case token.SUB_ASSIGN:
								nv.l = old.l.sub(v.l)
							}
						}
						v = nv
					}
					next = append(next, acc{r.st, append(append([]giVal(nil), a.vs...), v)})
				}
			}
			cur = next
		}
		for _, a := range cur {
			for i, l := range x.Lhs {
				if i < len(a.vs) {
					g.assign(l, a.vs[i], a.st)
				}
			}
			fall = append(fall, a.st)
		}
		return
	case *ast.IfStmt:
		cur := []*giState{st}
		if x.Init != nil {
			var r []giRet
			cur, r = g.stmt(x.Init, st, results)
			rets = append(rets, r...)
		}
		for _, c := range cur {
			t, f := g.cond(x.Cond, c)
			ft, rt := g.stmts(x.Body.List, t, results)
			fall = append(fall, ft...)
			rets = append(rets, rt...)
			if x.Else != nil {
				for _, s := range f {
					fe, re := g.stmt(x.Else, s, results)
					fall = append(fall, fe...)
					rets = append(rets, re...)
				}
			} else {
				fall = append(fall, f...)
			}
		}
		return
	case *ast.SwitchStmt:
		if x.Init != nil || hasFallthrough(x) {
			st.und = append(st.und, "switch with an initialiser or fallthrough")
			return []*giState{st}, nil
		}
		pending := []*giState{st}
		var def *ast.CaseClause
		for _, cl := range x.Body.List {
			cc := cl.(*ast.CaseClause)
			if cc.List == nil {
				def = cc
				continue
			}
			var taken, rest []*giState
			for _, p := range pending {
				remaining := []*giState{p}
				for _, e := range cc.List {
					var cond ast.Expr = e
					if x.Tag != nil {
						cond = &ast.BinaryExpr{X: x.Tag, Op: token.EQL, Y: e}
					}
					var nr []*giState
					for _, q := range remaining {
						t, f := g.condSynth(cond, q)
						taken = append(taken, t...)
						nr = append(nr, f...)
					}
					remaining = nr
				}
				rest = append(rest, remaining...)
			}
			ft, rt := g.stmts(stripBreak(cc.Body), taken, results)
			fall = append(fall, ft...)
			rets = append(rets, rt...)
			pending = rest
		}
		if def != nil {
			ft, rt := g.stmts(stripBreak(def.Body), pending, results)
			fall = append(fall, ft...)
			rets = append(rets, rt...)
		} else {
			fall = append(fall, pending...)
		}
		return
	case *ast.ReturnStmt:
		if len(x.Results) == 0 {
			vals := make([]giVal, len(results))
			for i, o := range results {
				vals[i] = st.vars[o]
			}
			return nil, []giRet{{st, vals}}
		}
		if len(x.Results) == 1 {
			if call, ok := unparen(x.Results[0]).(*ast.CallExpr); ok {
				return nil, g.call(call, st)
			}
		}
		type acc struct {
			st *giState
			vs []giVal
		}
		cur := []acc{{st, nil}}
		for _, e := range x.Results {
			var next []acc
			for _, a := range cur {
				for _, r := range g.eval(e, a.st) {
					next = append(next, acc{r.st, append(append([]giVal(nil), a.vs...), r.v)})
				}
			}
			cur = next
		}
		for _, a := range cur {
			// a result of type error that is not nil (and not a tracked error variable) is some error
			for i, e := range x.Results {
				if tv, ok := g.info.Types[e]; ok && i == len(x.Results)-1 && !a.vs[i].isNil && !a.vs[i].errV {
					if _, isPtr := tv.Type.(*types.Pointer); isPtr || types.Identical(tv.Type, types.Universe.Lookup("error").Type()) {
						if id := identOf(e); id == nil || id.Name != "nil" {
							a.vs[i].errV = true
						}
					}
				}
			}
			rets = append(rets, giRet{a.st, a.vs})
		}
		return nil, rets
	}
	st.und = append(st.und, fmt.Sprintf("statement not covered by the interpretation (%T at %s)", s, g.c.Pos(s.Pos())))
	return []*giState{st}, nil
}

// condSynth evaluates a synthesised comparison (switch tag == case value), whose nodes have no type information.
func (g *giEval) condSynth(e ast.Expr, st *giState) (t, f []*giState) {
	if be, ok := e.(*ast.BinaryExpr); ok && be.OpPos == token.NoPos && be.Op == token.EQL {
		for _, a := range g.eval(be.X, st) {
			for _, b := range g.eval(be.Y, a.st) {
				tt, ff := g.compare(a.v, b.v, token.EQL, b.st)
				t = append(t, tt...)
				f = append(f, ff...)
			}
		}
		return
	}
	return g.cond(e, st)
}

func hasFallthrough(x *ast.SwitchStmt) bool {
	found := false
	ast.Inspect(x.Body, func(n ast.Node) bool {
		if b, ok := n.(*ast.BranchStmt); ok && b.Tok == token.FALLTHROUGH {
			found = true
		}
		return true
	})
	return found
}

func stripBreak(body []ast.Stmt) []ast.Stmt {
	if n := len(body); n > 0 {
		if b, ok := body[n-1].(*ast.BranchStmt); ok && b.Tok == token.BREAK && b.Label == nil {
			return body[:n-1]
		}
	}
	return body
}

func runC13R2(c *Ctx, r *Rep) {
	fd := c.MethodDecl("py", "Slice", "GetIndices")
	if fd == nil || fd.Body == nil {
		r.undecided("py|Slice.GetIndices", token.NoPos, "anchor function not found")
		return
	}
	r.analysed("(*py.Slice).GetIndices")
	pyp := c.MustPkg("py")
	info := pyp.TypesInfo
	var recv, length types.Object
	if fd.Recv != nil && len(fd.Recv.List) == 1 && len(fd.Recv.List[0].Names) == 1 {
		recv = info.Defs[fd.Recv.List[0].Names[0]]
	}
	if fd.Type.Params != nil {
		for _, f := range fd.Type.Params.List {
			for _, nm := range f.Names {
				if length == nil {
					length = info.Defs[nm]
				}
			}
		}
	}
	sig := info.Defs[fd.Name].(*types.Func).Type().(*types.Signature)
	if recv == nil || length == nil || sig.Results().Len() < 2 || !isIntType(sig.Results().At(0).Type()) || !isIntType(sig.Results().At(1).Type()) {
		r.undecided("py|Slice.GetIndices|signature", fd.Pos(), "expected a method with a length parameter answering (start, stop, …)")
		return
	}
	L := linSym("L")
	region := func(sym string, cs string) []*lin {
		v := linSym(sym)
		switch cs {
		case "hi": // v >= L
			return []*lin{v.sub(L)}
		case "in": // 0 <= v < L
			return []*lin{v, L.sub(v).add(linConst(-1))}
		case "negin": // -L <= v < 0
			return []*lin{v.add(L), v.scale(-1).add(linConst(-1))}
		case "lo": // v < -L
			return []*lin{v.add(L).scale(-1).add(linConst(-1))}
		}
		return nil
	}
	want := func(sym, cs, stepCase string, isStart bool) *lin {
		neg := stepCase == "neg"
		v := linSym(sym)
		switch cs {
		case "none":
			switch {
			case neg && isStart:
				return L.add(linConst(-1))
			case neg:
				return linConst(-1)
			case isStart:
				return linConst(0)
			}
			return L
		case "hi":
			if neg {
				return L.add(linConst(-1))
			}
			return L
		case "in":
			return v
		case "negin":
			return v.add(L)
		}
		if neg {
			return linConst(-1)
		}
		return linConst(0)
	}
	regionText := map[string]string{"none": "absent", "hi": "v >= len", "in": "0 <= v < len", "negin": "-len <= v < 0", "lo": "v < -len"}
	stepText := map[string]string{"none": "absent", "neg": "negative", "pos": "positive"}
	show := func(l *lin) string {
		if l == nil {
			return "a value the interpretation lost track of"
		}
		s := l.String()
		s = strings.NewReplacer("vS", "v", "vE", "v", "L", "len").Replace(s)
		return s
	}
	for _, stepCase := range []string{"none", "neg", "pos"} {
		for _, which := range []string{"start", "stop"} {
			for _, cs := range []string{"none", "hi", "in", "negin", "lo"} {
				gc := giCase{stepCase: stepCase, startCase: "none", stopCase: "none"}
				sym := "vS"
				idx := 0
				if which == "start" {
					gc.startCase = cs
				} else {
					gc.stopCase = cs
					sym = "vE"
					idx = 1
				}
				g := &giEval{c: c, info: info, pkg: pyp.Types, recv: recv, length: length, cs: gc}
				st := &giState{vars: map[types.Object]giVal{}}
				st.vars[recv] = giVal{field: "recv"}
				st.vars[length] = giVal{l: L}
				st.cons = append(st.cons, L) // len >= 0
				st.cons = append(st.cons, region(sym, cs)...)
				switch stepCase {
				case "neg":
					st.cons = append(st.cons, linSym("vP").scale(-1).add(linConst(-1)))
				case "pos":
					st.cons = append(st.cons, linSym("vP").add(linConst(-1)))
				}
				rets := g.fn(fd, st)
				key := fmt.Sprintf("py|Slice.GetIndices|step %s|%s %s", stepText[stepCase], which, regionText[cs])
				w := want(sym, cs, stepCase, which == "start")
				var und, wrong []string
				okPaths := 0
				for _, rt := range rets {
					if len(rt.st.und) > 0 {
						und = append(und, rt.st.und...)
						continue
					}
					if len(rt.vals) != sig.Results().Len() {
						und = append(und, "a return does not answer all results")
						continue
					}
					if e := rt.vals[len(rt.vals)-1]; e.errV {
						continue // an error is raised on this path
					}
					got := rt.vals[idx].l
					if got != nil {
						// equal under the path's constraints (for len == 0 the forms `0` and `len` coincide)
						d := got.sub(w)
						above := append(append([]*lin(nil), rt.st.cons...), d.add(linConst(-1)))
						below := append(append([]*lin(nil), rt.st.cons...), d.scale(-1).add(linConst(-1)))
						if got.equal(w) || (!fmFeasible(above) && !fmFeasible(below)) {
							okPaths++
							continue
						}
					}
					wrong = append(wrong, show(got))
				}
				switch {
				case len(und) > 0:
					r.undecided(key, fd.Pos(), "%s", strings.Join(uniq(und), "; "))
				case len(wrong) > 0:
					r.bad(key, fd.Pos(), "for a slice whose step is %s and whose %s is %s (v the converted bound, len the sequence length) GetIndices answers %s = %s on some path; Python defines %s [sliceobject.c PySlice_GetIndicesEx: add len once if negative, then clip to the default of that end]",
						stepText[stepCase], which, regionText[cs], which, strings.Join(uniq(wrong), " / "), show(w))
				case okPaths == 0:
					r.bad(key, fd.Pos(), "for a slice whose step is %s and whose %s is %s every path of GetIndices ends in an error", stepText[stepCase], which, regionText[cs])
				default:
					r.ok(key, fd.Pos(), "%s = %s on all %d paths", which, show(w), okPaths)
				}
			}
		}
	}
}

// C13.R13: the subscript normaliser py.IndexIntCheck, by the same interpretation: over the regions of the converted
// subscript v against the length — v >= len and v < -len raise, 0 <= v < len answers v, -len <= v < 0 answers v + len.
func runC13R13(c *Ctx, r *Rep) {
	fn := c.Func("py", "IndexIntCheck")
	fd := c.Decl(fn)
	if fn == nil || fd == nil || fd.Body == nil {
		r.undecided("py|IndexIntCheck", token.NoPos, "anchor function not found")
		return
	}
	r.analysed("py.IndexIntCheck")
	pyp := c.MustPkg("py")
	info := pyp.TypesInfo
	sig := fn.Type().(*types.Signature)
	if sig.Params().Len() != 2 || !isIntType(sig.Params().At(1).Type()) || sig.Results().Len() != 2 || !isIntType(sig.Results().At(0).Type()) {
		r.undecided("py|IndexIntCheck|signature", fd.Pos(), "expected IndexIntCheck(object, length) (int, error)")
		return
	}
	var params []types.Object
	for _, f := range fd.Type.Params.List {
		for _, nm := range f.Names {
			params = append(params, info.Defs[nm])
		}
	}
	if len(params) != 2 {
		r.undecided("py|IndexIntCheck|signature", fd.Pos(), "unnamed parameters")
		return
	}
	L := linSym("L")
	v := linSym("vS")
	cases := []struct {
		name string
		cons []*lin
		want *lin // nil: must raise
	}{
		{"v >= len", []*lin{v.sub(L)}, nil},
		{"0 <= v < len", []*lin{v, L.sub(v).add(linConst(-1))}, v},
		{"-len <= v < 0", []*lin{v.add(L), v.scale(-1).add(linConst(-1))}, v.add(L)},
		{"v < -len", []*lin{v.add(L).scale(-1).add(linConst(-1))}, nil},
	}
	show := func(l *lin) string {
		if l == nil {
			return "a value the interpretation lost track of"
		}
		return strings.NewReplacer("vS", "v", "L", "len").Replace(l.String())
	}
	for _, cs := range cases {
		g := &giEval{c: c, info: info, pkg: pyp.Types, cs: giCase{stepCase: "none", startCase: "in", stopCase: "none"}}
		st := &giState{vars: map[types.Object]giVal{}}
		st.vars[params[0]] = giVal{field: "Start"}
		st.vars[params[1]] = giVal{l: L}
		st.cons = append(st.cons, L)
		st.cons = append(st.cons, cs.cons...)
		rets := g.fn(fd, st)
		key := "py|IndexIntCheck|subscript " + cs.name
		var und, wrong []string
		okPaths, errPaths := 0, 0
		for _, rt := range rets {
			if len(rt.st.und) > 0 {
				und = append(und, rt.st.und...)
				continue
			}
			if len(rt.vals) != 2 {
				und = append(und, "a return does not answer both results")
				continue
			}
			if rt.vals[1].errV {
				errPaths++
				continue
			}
			got := rt.vals[0].l
			if cs.want != nil && got != nil {
				d := got.sub(cs.want)
				above := append(append([]*lin(nil), rt.st.cons...), d.add(linConst(-1)))
				below := append(append([]*lin(nil), rt.st.cons...), d.scale(-1).add(linConst(-1)))
				if got.equal(cs.want) || (!fmFeasible(above) && !fmFeasible(below)) {
					okPaths++
					continue
				}
			}
			wrong = append(wrong, show(got))
		}
		switch {
		case len(und) > 0:
			r.undecided(key, fd.Pos(), "%s", strings.Join(uniq(und), "; "))
		case cs.want == nil && len(wrong) > 0:
			r.bad(key, fd.Pos(), "for a subscript %s (v the converted subscript, len the sequence length) IndexIntCheck answers %s on some path instead of raising IndexError: the caller indexes its item array with it", cs.name, strings.Join(uniq(wrong), " / "))
		case cs.want == nil:
			r.check(errPaths > 0, key, fd.Pos(), fmt.Sprintf("raises on all %d paths", errPaths), "no path at all for this region")
		case len(wrong) > 0:
			r.bad(key, fd.Pos(), "for a subscript %s IndexIntCheck answers %s on some path; the sequence model defines %s (a negative subscript counts from the end, once)", cs.name, strings.Join(uniq(wrong), " / "), show(cs.want))
		case okPaths == 0:
			r.bad(key, fd.Pos(), "for a subscript %s every path of IndexIntCheck raises; the sequence model defines item %s", cs.name, show(cs.want))
		default:
			r.ok(key, fd.Pos(), "answers %s on all %d non-raising paths", show(cs.want), okPaths)
		}
	}
}

func init() {
	register(&Rule{ID: "C13.R13", Prop: "C13", Floor: 4,
		Doc: "subscript normalisation in py.IndexIntCheck, by abstract interpretation over the regions of the converted subscript v against the length (linear forms, Fourier–Motzkin feasibility): v >= len and v < -len raise on every path, 0 <= v < len answers v, -len <= v < 0 answers v + len",
		Run: runC13R13})
}
