package main

import (
	"fmt"
	"go/ast"
	"go/token"
	"go/types"
	"strings"
)

func init() {
	register(&Rule{ID: "C12.R2", Prop: "C12", Floor: 150,
		Doc: "instruction-set exhaustiveness: every opcode constant has its own jumpTable handler (not the illegal-opcode default, not shared); every opcode the compiler can emit has an opcodeStackEffect case",
		Run: runC12R2})
	register(&Rule{ID: "C12.R3", Prop: "C12", Floor: 12,
		Doc: "jump addressing agreement: opcodes the emitter assembles as JumpAbs are those whose handler uses the operand as an absolute address (Lasti = arg / continue target), JumpRel those whose handler adds it to Lasti; jump opcodes are only emitted through compiler.Jump",
		Run: runC12R3})
	register(&Rule{ID: "C12.R4", Prop: "C12", Floor: 150,
		Doc: "argument-taking agreement: c.Op only with opcodes < HAVE_ARGUMENT, c.OpArg/c.Jump only with opcodes >= HAVE_ARGUMENT (opcode operands resolved to constants); handlers of no-argument opcodes do not read their operand",
		Run: runC12R4})
}

// stackEffectCases returns the opcode names that have a case in compile.opcodeStackEffect.
func stackEffectCases(c *Ctx, m *vmModel) (map[string]token.Pos, *ast.FuncDecl) {
	fd := c.FuncDecl("compile", "opcodeStackEffect")
	if fd == nil {
		return nil, nil
	}
	p := c.MustPkg("compile")
	out := map[string]token.Pos{}
	ast.Inspect(fd.Body, func(n ast.Node) bool {
		if cc, ok := n.(*ast.CaseClause); ok {
			for _, e := range cc.List {
				if name, ok := m.opcodeOf(p.TypesInfo, e); ok {
					out[name] = e.Pos()
				}
			}
		}
		return true
	})
	return out, fd
}

func runC12R2(c *Ctx, r *Rep) {
	m := getVMModel(c)
	em := getEmitModel(c, m)
	handlerUse := map[*types.Func][]string{}
	for _, op := range m.opNames() {
		h := m.handlers[op]
		key := "vm|jumpTable|" + op
		switch {
		case h == nil:
			r.bad(key, m.ops[op].Pos(), "opcode %s has no jumpTable entry: executing it raises 'Illegal opcode'", op)
		case h == m.defaultH:
			r.bad(key, m.handPos[op], "opcode %s is bound to the illegal-opcode handler", op)
		default:
			r.okTrivial(key, m.handPos[op], "handled by %s", h.Name())
			handlerUse[h] = append(handlerUse[h], op)
		}
	}
	for h, ops := range handlerUse {
		if len(ops) > 1 {
			r.bad("vm|jumpTable|shared handler "+h.Name(), h.Pos(), "handler %s is registered for %v; no two Python 3.4 opcodes share semantics", h.Name(), ops)
		}
	}
	for _, d := range m.dupAssn {
		r.bad("vm|jumpTable|duplicate "+d, m.handPos[d], "jumpTable[%s] is assigned twice; the later assignment silently wins", d)
	}
	cases, fd := stackEffectCases(c, m)
	if fd == nil {
		r.undecided("compile|opcodeStackEffect", token.NoPos, "anchor function not found")
		return
	}
	r.analysed("compile.opcodeStackEffect")
	emitted := map[string]token.Pos{}
	for _, s := range em.sites {
		key := fmt.Sprintf("compile|%s|emit %s(%s)", s.fn, s.emitter, strings.Join(s.ops, "/"))
		if s.unknown || len(s.ops) == 0 {
			r.undecided(key, s.pos, "opcode operand of %s does not resolve to constants", s.emitter)
			continue
		}
		for _, op := range s.ops {
			if _, ok := emitted[op]; !ok {
				emitted[op] = s.pos
			}
		}
		missing := []string{}
		for _, op := range s.ops {
			if _, ok := cases[op]; !ok {
				missing = append(missing, op)
			}
		}
		if len(missing) > 0 {
			r.bad(key, s.pos, "emits %v which has no case in opcodeStackEffect: StackDepth panics ('Unknown opcode in StackEffect') -> SystemError for any program using it", missing)
		} else {
			r.okTrivial(key, s.pos, "stack effect known")
		}
	}
	r.note("%d emit sites, %d distinct opcodes emitted, %d opcodes with a stack-effect case", len(em.sites), len(emitted), len(cases))
}

// argUses classifies how a handler uses its operand parameter.
type argUse struct {
	abs, rel, other bool
	reads           int
}

func handlerArgUse(c *Ctx, m *vmModel, h *types.Func) (*argUse, *ast.FuncDecl) {
	fd := c.Decl(h)
	if fd == nil || fd.Type.Params == nil || len(fd.Type.Params.List) < 1 {
		return nil, nil
	}
	info := m.pkg.TypesInfo
	var argObj types.Object
	n := 0
	for _, f := range fd.Type.Params.List {
		for _, id := range f.Names {
			if n == 1 {
				argObj = info.Defs[id]
			}
			n++
		}
	}
	if argObj == nil {
		return nil, fd
	}
	lasti := func(e ast.Expr) bool {
		sel, ok := unparen(e).(*ast.SelectorExpr)
		if !ok {
			return false
		}
		s, ok := info.Selections[sel]
		return ok && s.Obj().Name() == "Lasti" && s.Kind() == types.FieldVal
	}
	isArg := func(e ast.Expr) bool {
		e = unparen(e)
		if call, ok := e.(*ast.CallExpr); ok && len(call.Args) == 1 { // conversion int32(arg), py.Int(arg)
			if tv, ok := info.Types[call.Fun]; ok && tv.IsType() {
				e = unparen(call.Args[0])
			}
		}
		id, ok := e.(*ast.Ident)
		return ok && info.Uses[id] == argObj
	}
	u := &argUse{}
	classified := map[token.Pos]bool{}
	ast.Inspect(fd.Body, func(n ast.Node) bool {
		switch x := n.(type) {
		case *ast.AssignStmt:
			if len(x.Lhs) == 1 && len(x.Rhs) == 1 {
				if lasti(x.Lhs[0]) && isArg(x.Rhs[0]) {
					if x.Tok == token.ASSIGN {
						u.abs = true
					} else if x.Tok == token.ADD_ASSIGN {
						u.rel = true
					}
					classified[x.Rhs[0].Pos()] = true
				}
				// vm.retval = py.Int(target)  (continue target, consumed as Lasti by the unwinder)
				if sel, ok := unparen(x.Lhs[0]).(*ast.SelectorExpr); ok && sel.Sel.Name == "retval" && isArg(x.Rhs[0]) {
					u.abs = true
					classified[x.Rhs[0].Pos()] = true
				}
			}
		case *ast.BinaryExpr:
			if x.Op == token.ADD && ((lasti(x.X) && isArg(x.Y)) || (lasti(x.Y) && isArg(x.X))) {
				u.rel = true
				classified[x.X.Pos()] = true
				classified[x.Y.Pos()] = true
			}
		}
		return true
	})
	ast.Inspect(fd.Body, func(n ast.Node) bool {
		if id, ok := n.(*ast.Ident); ok && info.Uses[id] == argObj {
			u.reads++
		}
		return true
	})
	return u, fd
}

func runC12R3(c *Ctx, r *Rep) {
	m := getVMModel(c)
	em := getEmitModel(c, m)
	p := c.MustPkg("compile")
	jfd := c.MethodDecl("compile", "compiler", "Jump")
	if jfd == nil {
		r.undecided("compile|compiler.Jump", token.NoPos, "anchor not found")
		return
	}
	r.analysed("(*compile.compiler).Jump")
	kindOf := map[string]string{}
	ast.Inspect(jfd.Body, func(n ast.Node) bool {
		cc, ok := n.(*ast.CaseClause)
		if !ok || len(cc.List) == 0 {
			return true
		}
		kind := ""
		for _, s := range cc.Body {
			ast.Inspect(s, func(n ast.Node) bool {
				if cl, ok := n.(*ast.CompositeLit); ok {
					if tv, ok := p.TypesInfo.Types[cl]; ok {
						switch namedTypeName(tv.Type) {
						case "compile.JumpAbs":
							kind = "abs"
						case "compile.JumpRel":
							kind = "rel"
						}
					}
				}
				return true
			})
		}
		for _, e := range cc.List {
			if name, ok := m.opcodeOf(p.TypesInfo, e); ok {
				kindOf[name] = kind
			}
		}
		return true
	})
	if len(kindOf) == 0 {
		r.undecided("compile|compiler.Jump|switch", jfd.Pos(), "no opcode cases building JumpAbs/JumpRel found")
		return
	}
	// handler side
	jumpLike := map[string]string{}
	for _, op := range m.opNames() {
		h := m.handlers[op]
		if h == nil {
			continue
		}
		u, _ := handlerArgUse(c, m, h)
		if u == nil {
			continue
		}
		switch {
		case u.abs && u.rel:
			jumpLike[op] = "both"
		case u.abs:
			jumpLike[op] = "abs"
		case u.rel:
			jumpLike[op] = "rel"
		}
	}
	for op, k := range kindOf {
		h := m.handlers[op]
		key := "compile|compiler.Jump|" + op
		if h == nil {
			r.bad(key, jfd.Pos(), "jump opcode %s has no handler", op)
			continue
		}
		r.analysed(FuncID(h))
		got := jumpLike[op]
		if got == "" {
			r.bad(key, c.Decl(h).Pos(), "compiler assembles %s as a %s jump but its handler %s never uses the operand as an address", op, k, h.Name())
			continue
		}
		r.check(got == k, key, c.Decl(h).Pos(), fmt.Sprintf("%s: emitter %s, handler %s", op, k, got),
			fmt.Sprintf("%s is assembled with a %s-addressed operand but handler %s interprets it as %s: every jump lands at the wrong address", op, k, h.Name(), got))
	}
	for op, k := range jumpLike {
		if _, ok := kindOf[op]; !ok {
			r.bad("vm|"+op+"|not in compiler.Jump", c.Decl(m.handlers[op]).Pos(), "handler of %s uses its operand as a %s address but compiler.Jump has no case for it", op, k)
		}
	}
	// jump opcodes are emitted only through Jump; Jump is only used for jump opcodes
	for _, s := range em.sites {
		for _, op := range s.ops {
			_, isJump := kindOf[op]
			key := fmt.Sprintf("compile|%s|emit %s(%s)", s.fn, s.emitter, op)
			switch {
			case isJump && s.emitter != "Jump":
				r.bad(key, s.pos, "jump opcode %s emitted through %s: its operand is never resolved from a label", op, s.emitter)
			case !isJump && s.emitter == "Jump":
				r.bad(key, s.pos, "non-jump opcode %s emitted through Jump (panics 'Jump called with non jump instruction')", op)
			case isJump:
				r.okTrivial(key, s.pos, "through Jump")
			}
		}
	}
}

func runC12R4(c *Ctx, r *Rep) {
	m := getVMModel(c)
	em := getEmitModel(c, m)
	for _, s := range em.sites {
		if s.unknown {
			continue // reported by C12.R2
		}
		for _, op := range s.ops {
			v := constVal(m.ops[op])
			key := fmt.Sprintf("compile|%s|emit %s(%s)", s.fn, s.emitter, op)
			switch s.emitter {
			case "Op":
				r.check(v < m.haveArg, key, s.pos, "no-argument opcode through Op", fmt.Sprintf("%s takes an argument but is emitted with Op (runtime panic in the compiler -> SystemError)", op))
			default:
				r.check(v >= m.haveArg, key, s.pos, "argument opcode", fmt.Sprintf("%s takes no argument but is emitted with %s", op, s.emitter))
			}
		}
	}
	for _, op := range m.opNames() {
		if constVal(m.ops[op]) >= m.haveArg {
			continue
		}
		h := m.handlers[op]
		if h == nil {
			continue
		}
		u, fd := handlerArgUse(c, m, h)
		if fd == nil {
			continue
		}
		r.analysed(FuncID(h))
		reads := 0
		if u != nil {
			reads = u.reads
		}
		r.check(reads == 0, "vm|"+h.Name()+"|operand unused", fd.Pos(), "no-argument opcode ignores its operand",
			fmt.Sprintf("handler of no-argument opcode %s reads its operand, which holds the previous instruction's argument", op))
	}
}
