package main

import (
	"fmt"
	"go/token"
	"go/types"
	"sort"
	"strings"

	"golang.org/x/tools/go/ssa"
)

// sanctionedSharing: functions whose result is, by Python's definition or by the Go API contract, the
// operand itself or a view of it. Key: "<function>|<param>". One line of reason each (confirmed by reading).
var sanctionedSharing = map[string]string{
	"(*py.List).M__iadd__|a":         "x += y on a list extends x in place and evaluates to x itself (Python data model, __iadd__)",
	"(*py.List).M__imul__|a":         "x *= n on a list repeats x in place and evaluates to x itself (Python data model, __imul__)",
	"(*py.Set).M__iand__|s":          "s &= t changes s in place and evaluates to s itself",
	"(*py.Set).M__ior__|s":           "s |= t changes s in place and evaluates to s itself",
	"(*py.Set).M__isub__|s":          "s -= t changes s in place and evaluates to s itself",
	"(*py.Set).M__ixor__|s":          "s ^= t changes s in place and evaluates to s itself",
	"(*py.Set).inPlace|s":            "helper of the in-place set operators: returns the receiver",
	"(*py.Set).inPlace|res":          "helper of the in-place set operators: res is the set just built by the binary operator (never a user-visible operand); a non-set result (NotImplemented) is passed through",
	"(*py.List).M__iter__|l":         "a list iterator is a live view of its list: mutations during iteration are visible (listiterobject holds it_seq)",
	"(py.StringDict).GetDict|d":      "IGetDict accessor: the dict of a dict-backed object is that object",
	"py.DictCheckExact|obj":          "type-check helper: returns its argument with the static type StringDict",
	"py.DictCheck|obj":               "type-check helper: returns its argument with the static type StringDict",
	"py.NewFrame|globals":            "a frame refers to the module's globals dict (reference semantics: f_globals is that dict)",
	"py.NewFrame|locals":             "a frame refers to the namespace dict it executes in (f_locals; class bodies and module code write through it)",
	"py.NewFunction|globals":         "a function refers to the globals dict of its defining module (__globals__ is that dict)",
	"(*py.File).readResult|b":        "Go-side helper: wraps the freshly read byte buffer it is given; not reachable with a Python-visible container",
	"(*py.Module).GetDict|m":         "accessor",
	"(*py.Type).GetDict|t":           "accessor",
	"(*py.Function).GetDict|f":       "accessor",
	"(*py.Exception).GetDict|e":      "accessor",
	"(*py.Iterator).M__iter__|it":    "an iterator is its own iterator",
	"(*py.Generator).M__iter__|it":   "an iterator is its own iterator",
	"py.NewIterator|Seq":             "Go-side constructor: the iterator refers to the sequence object it iterates (reference, not a copy)",
	"py.NewModule|globals":           "unused",
	"py.NewBoundMethod|self":         "a bound method refers to the instance it is bound to (__self__)",
	"py.NewClassMethod|Callable":     "reference",
	"py.NewStaticMethod|Callable":    "reference",
	"(*py.List).M__iadd__|other":     "unused",
	"py.ExceptionNewf|a":             "unused",
	"(*py.Cell).Get|c":               "unused",
	"(*py.Cell).Set|obj":             "unused",
	"py.NewCell|obj":                 "unused",
	"(*vm.Vm).TOP|vm":                "unused",
	"py.NewSetFromItems|items":       "unused",
	"py.NewFrozenSetFromItems|items": "unused",
}

// sanctionedStores: functions that by contract make one argument's storage part of another argument's object.
var sanctionedStores = map[string]string{
	"(*py.Set).inPlace|s<-res":                                      "the in-place set operators adopt the table of the set just built by the binary operator, which nothing else refers to",
	`py.init$FunctionType.Dict["__annotations__"]=Fset|self<-value`: "f.__annotations__ = d binds the attribute to that dict object (reference semantics of attribute assignment)",
	`py.init$FunctionType.Dict["__defaults__"]=Fset|self<-value`:    "f.__defaults__ = t binds the attribute to that tuple object",
	`py.init$FunctionType.Dict["__dict__"]=Fset|self<-value`:        "f.__dict__ = d binds the attribute to that dict object",
	`py.init$FunctionType.Dict["__kwdefaults__"]=Fset|self<-value`:  "f.__kwdefaults__ = d binds the attribute to that dict object",
}

// freshAnchors: operations that Python defines as producing a new container (or, for a stack view, Go code
// that must copy). They must exist and be covered by the analysis — otherwise the census passes vacuously.
var freshAnchors = []string{
	"(*py.List).Copy", "py.NewListFromItems", "(*py.List).M__add__", "(*py.List).M__radd__", "(*py.List).M__mul__", "(*py.List).M__rmul__",
	"(*py.List).M__getitem__", "py.SequenceList", "py.SequenceTuple", "py.SequenceSet", "py.ListNew", "py.TupleNew", "py.DictNew", "py.SetNew",
	"(py.StringDict).Copy", "py.TypeNew", "(py.Tuple).Copy", "py.NewSetFromItems", "(*py.Set).M__or__", "(*py.Set).M__and__", "(*py.Set).M__sub__", "(*py.Set).M__xor__",
	"stdlib/builtin.builtin_sorted", "py.exceptionNew", "vm.do_BUILD_LIST", "vm.do_BUILD_TUPLE", "vm.do_BUILD_SET", "(*vm.Vm).Call",
	"(py.Tuple).M__getitem__", "(py.Tuple).M__add__",
}

type aliasFinding struct {
	fn    *ssa.Function
	id    string
	key   string
	kind  string
	what  string
	pos   token.Pos
	store bool
}

func aliasScope(c *Ctx, fn *ssa.Function) bool {
	if fn.Pkg == nil {
		return false
	}
	p := shortPkg(fn.Pkg.Pkg.Path())
	return p == "py" || p == "vm" || strings.HasPrefix(p, "stdlib/") || p == "repl" || p == "modules" || p == "stdlib"
}

// carriesContainers: the type can hold a Python container (so a result of this type could share storage).
func (a *aliasAn) carriesContainers(t types.Type) bool {
	if t == nil || t.String() == "error" {
		return false
	}
	if a.containerKind(t) != "" || isInterface(t) {
		return true
	}
	if p, ok := t.(*types.Pointer); ok {
		_, isStruct := p.Elem().Underlying().(*types.Struct)
		return isStruct
	}
	return false
}

func aliasFindings(c *Ctx, a *aliasAn, ln *litNamer) (finds []aliasFinding, covered map[string]*ssa.Function) {
	covered = map[string]*ssa.Function{}
	for _, fn := range a.fns {
		if !aliasScope(c, fn) {
			continue
		}
		id := ln.id(fn)
		covered[id] = fn
		seen := map[string]bool{}
		// an unexported helper written since the reference is not a Python-level operation of its own: what it
		// returns or keeps is followed into its callers through its summary and decided there
		newHelper := false
		if f, ok := fn.Object().(*types.Func); ok && !f.Exported() && isNewFunc(FuncID(f)) {
			newHelper = true
		}
		if newHelper {
			continue
		}
		for _, rs := range a.ret[fn] {
			for at := range rs {
				if at.fn != fn {
					continue
				}
				retains := at.kind == "Tuple" && !at.elem && argsConvention(fn, at.idx)
				if !mutableKind(at.kind) && !retains {
					continue
				}
				key := fmt.Sprintf("%s|%s", id, paramName(fn, at.idx))
				if seen[key] {
					continue
				}
				seen[key] = true
				what := fmt.Sprintf("a result of %s may share storage with (or be) its parameter %s, witnessed as %s", id, paramName(fn, at.idx), at.kind)
				if at.elem {
					what = fmt.Sprintf("a result of %s may share storage with (or be) an operand taken from its parameter %s, witnessed as %s", id, paramName(fn, at.idx), at.kind)
				}
				if retains {
					what = fmt.Sprintf("%s keeps its argument vector %s in its result: vm.Call passes a view of the frame's value stack there, which later pushes overwrite", id, paramName(fn, at.idx))
				}
				finds = append(finds, aliasFinding{fn: fn, id: id, key: key, kind: at.kind, what: what, pos: fn.Pos()})
			}
		}
		for k := range a.stores[fn] {
			key := fmt.Sprintf("%s|%s<-%s", id, paramName(fn, k[0]), paramName(fn, k[1]))
			finds = append(finds, aliasFinding{fn: fn, id: id, key: key, store: true, pos: fn.Pos(),
				what: fmt.Sprintf("%s makes the storage of its parameter %s part of the object passed as %s", id, paramName(fn, k[1]), paramName(fn, k[0]))})
		}
	}
	sort.Slice(finds, func(i, j int) bool { return finds[i].key < finds[j].key })
	return
}

// argsConvention: parameter i is the argument vector of a Python-level call (a Tuple followed by the keyword
// dictionary, or the last parameter of a (self, args) builtin). vm.Call passes a view of the frame's value stack there.
func argsConvention(fn *ssa.Function, i int) bool {
	if i >= len(fn.Params) {
		return false
	}
	if !strings.HasSuffix(fn.Params[i].Type().String(), "/py.Tuple") {
		return false
	}
	if i+1 < len(fn.Params) {
		return strings.HasSuffix(fn.Params[i+1].Type().String(), "/py.StringDict")
	}
	return i >= 1 // (self, args)
}

// stackViewFindings: a view of Frame.Stack (the VM value stack, reused by every later push) must not become
// a Python object, be returned, or be kept; it may only be read, copied from, re-assigned to Frame.Stack or
// passed as the argument vector of a call (the callee's side of that contract is the retains-args check).
func stackViewFindings(c *Ctx, a *aliasAn, ln *litNamer) (finds []aliasFinding, nsites int) {
	isStack := func(ts taintSet) bool {
		for at := range ts {
			if at.kind == "stack" {
				return true
			}
		}
		return false
	}
	for _, fn := range a.fns {
		if !aliasScope(c, fn) {
			continue
		}
		id := ln.id(fn)
		for _, b := range fn.Blocks {
			for _, in := range b.Instrs {
				switch x := in.(type) {
				case *ssa.Store:
					if !isStack(a.t[x.Val]) || a.containerKind(x.Val.Type()) == "" && !isInterface(x.Val.Type()) {
						continue
					}
					nsites++
					if fa, ok := x.Addr.(*ssa.FieldAddr); ok && isFrameStackField(fa) {
						continue
					}
					base, elemStore := storeBase(x.Addr)
					if !elemStore {
						switch base.(type) {
						case *ssa.Alloc, *ssa.FreeVar:
							continue // a local variable (possibly captured by a closure of the same function)
						}
					} else if it, ok := x.Val.Type().Underlying().(*types.Interface); ok && it.NumMethods() == 0 {
						if _, named := x.Val.Type().(*types.Named); !named {
							continue // boxed into interface{} for a formatting call
						}
					}
					finds = append(finds, aliasFinding{fn: fn, id: id, key: id + "|stack view stored|" + exprOfValue(x.Addr), pos: x.Pos(),
						what: "a view of the VM value stack is stored into " + exprOfValue(x.Addr) + " (the stack's array is overwritten by later pushes; copy first)"})
				case *ssa.Return:
					for _, r := range x.Results {
						if isStack(a.t[r]) {
							nsites++
							if fn.Object() != nil && !fn.Object().Exported() && fn.Parent() == nil {
								// an unexported helper may hand the view to its callers in the package: the view is
								// followed there through the helper's summary
								continue
							}
							finds = append(finds, aliasFinding{fn: fn, id: id, key: id + "|stack view returned", pos: x.Pos(),
								what: "a view of the VM value stack is returned"})
						}
					}
				case ssa.CallInstruction:
					cc := x.Common()
					if _, ok := cc.Value.(*ssa.Builtin); ok {
						continue
					}
					for i, arg := range cc.Args {
						if !isStack(a.t[arg]) || a.containerKind(arg.Type()) == "" && !isInterface(arg.Type()) {
							continue
						}
						nsites++
						if callee := cc.StaticCallee(); callee != nil && callee.Blocks != nil {
							if a.keeps[callee][i] {
								finds = append(finds, aliasFinding{fn: fn, id: id, key: fmt.Sprintf("%s|stack view kept|%s arg %d", id, calleeName(cc), i), pos: x.Pos(),
									what: "a view of the VM value stack is passed to " + calleeName(cc) + ", which keeps it as an element of a container (e.g. pushes it as an object); the stack's array is overwritten by later pushes — copy first"})
							}
							continue // otherwise followed through the callee's summary
						}
						// dynamic call: only the argument-vector position is sanctioned
						if strings.HasSuffix(arg.Type().String(), "/py.Tuple") && i+1 < len(cc.Args) && strings.HasSuffix(cc.Args[i+1].Type().String(), "/py.StringDict") {
							continue
						}
						finds = append(finds, aliasFinding{fn: fn, id: id, key: fmt.Sprintf("%s|stack view passed|%s arg %d", id, calleeName(cc), i), pos: x.Pos(),
							what: "a view of the VM value stack is passed to a dynamically dispatched call outside the argument-vector position"})
					}
				}
			}
		}
	}
	return
}

func calleeName(cc *ssa.CallCommon) string {
	if cc.IsInvoke() {
		return cc.Method.Name()
	}
	if f := cc.StaticCallee(); f != nil {
		return ssaFuncID(f)
	}
	return "dynamic"
}

func exprOfValue(v ssa.Value) string {
	switch x := v.(type) {
	case *ssa.FieldAddr:
		st := x.X.Type().Underlying().(*types.Pointer).Elem().Underlying().(*types.Struct)
		return exprOfValue(x.X) + "." + st.Field(x.Field).Name()
	case *ssa.IndexAddr:
		return exprOfValue(x.X) + "[…]"
	case *ssa.Parameter:
		return x.Name()
	case *ssa.UnOp:
		return exprOfValue(x.X)
	case *ssa.Global:
		return x.Name()
	case *ssa.Alloc:
		if x.Comment != "" {
			return x.Comment
		}
	case *ssa.Call:
		return calleeName(x.Common()) + "()"
	case *ssa.Extract:
		return exprOfValue(x.Tuple)
	case *ssa.TypeAssert:
		return exprOfValue(x.X)
	case *ssa.Phi:
		if x.Comment != "" {
			return x.Comment
		}
	}
	return v.Name()
}

func isFrameStackField(fa *ssa.FieldAddr) bool {
	pt, ok := fa.X.Type().Underlying().(*types.Pointer)
	if !ok {
		return false
	}
	n, ok := pt.Elem().(*types.Named)
	if !ok || n.Obj().Name() != "Frame" {
		return false
	}
	st, ok := n.Underlying().(*types.Struct)
	return ok && st.Field(fa.Field).Name() == "Stack"
}

// kwargsFreshness: the keyword dictionary a VM call site hands to the callee is built for that call; it is never
// the ** operand itself (f(**d) must not let the callee mutate d, nor see later changes of d).
func kwargsFreshness(c *Ctx, a *aliasAn, ln *litNamer, r *Rep) {
	n := 0
	for _, fn := range a.fns {
		if fn.Pkg == nil || shortPkg(fn.Pkg.Pkg.Path()) != "vm" {
			continue
		}
		for _, b := range fn.Blocks {
			for _, in := range b.Instrs {
				ci, ok := in.(ssa.CallInstruction)
				if !ok {
					continue
				}
				cc := ci.Common()
				for i, arg := range cc.Args {
					if i == 0 || !strings.HasSuffix(arg.Type().String(), "/py.StringDict") || !strings.HasSuffix(cc.Args[i-1].Type().String(), "/py.Tuple") {
						continue
					}
					if !(fn.Name() == "Call" && fn.Signature.Recv() != nil) {
						continue
					}
					n++
					var from []string
					for at := range a.t[arg] {
						if at.fn == fn && mutableKind(at.kind) {
							from = append(from, paramName(fn, at.idx))
						}
					}
					sort.Strings(from)
					key := fmt.Sprintf("%s|kwargs to %s", ln.id(fn), calleeName(cc))
					if len(from) > 0 {
						r.bad(key, ci.Pos(), "the keyword dictionary passed to the callee may be the operand %s itself (f(**d) must build a new dict)", strings.Join(from, ","))
					} else {
						r.ok(key, ci.Pos(), "the keyword dictionary passed to the callee is built in the call sequence; no operand dict reaches it")
					}
				}
			}
		}
	}
	if n == 0 {
		r.undecided("vm.Call|kwargs", token.NoPos, "no call site passing (args, kwargs) found in (*vm.Vm).Call")
	}
}

func runAliasCensus(c *Ctx, r *Rep) {
	a := newAliasAn(c)
	ln := newLitNamer(c)
	finds, covered := aliasFindings(c, a, ln)
	for _, anc := range freshAnchors {
		if fn, ok := covered[anc]; ok {
			r.analysed(anc)
			_ = fn
		} else {
			r.undecided("anchor|"+anc, token.NoPos, "function %s (an operation Python defines as producing a new container) not found — update freshAnchors after confirming what replaced it", anc)
		}
	}
	flagged := map[string]bool{}
	for _, f := range finds {
		flagged[f.id] = true
		table, label := sanctionedSharing, "shares"
		if f.store {
			table, label = sanctionedStores, "stores"
		}
		if reason, ok := table[f.key]; ok {
			r.ok(label+"|"+f.key, f.pos, "sanctioned: %s", reason)
			continue
		}
		// a reviewed row names the parameter; when that parameter was renamed the row is the one for this function
		// whose name no parameter carries any more (exactly one such row, and no row under the new name)
		if !f.store && f.fn != nil {
			cur := map[string]bool{}
			for _, p := range f.fn.Params {
				cur[p.Name()] = true
			}
			var stale []string
			for k := range table {
				if strings.HasPrefix(k, f.id+"|") && !cur[strings.TrimPrefix(k, f.id+"|")] {
					stale = append(stale, k)
				}
			}
			if len(stale) == 1 {
				r.ok(label+"|"+f.key, f.pos, "sanctioned (the row %s, whose parameter was renamed): %s", stale[0], table[stale[0]])
				continue
			}
		}
		r.bad(label+"|"+f.key, f.pos, "%s; Python defines this operation as producing a new container / the function is not on the reviewed list of operations that return or keep their operand", f.what)
	}
	// every other function that could hand out shared storage
	ids := make([]string, 0, len(covered))
	for id := range covered {
		ids = append(ids, id)
	}
	sort.Strings(ids)
	for _, id := range ids {
		fn := covered[id]
		if flagged[id] {
			continue
		}
		hasSrc := false
		for _, p := range fn.Params {
			if a.containerKind(p.Type()) != "" || isInterface(p.Type()) {
				hasSrc = true
			}
		}
		carries := false
		res := fn.Signature.Results()
		for i := 0; i < res.Len(); i++ {
			if a.carriesContainers(res.At(i).Type()) {
				carries = true
			}
		}
		if !hasSrc || !carries {
			continue
		}
		r.analysed(id)
		isAnchor := false
		for _, anc := range freshAnchors {
			if anc == id {
				isAnchor = true
			}
		}
		if isAnchor {
			r.ok("fresh|"+id, fn.Pos(), "no result shares storage with a parameter (operation defined as producing a new container)")
		} else {
			r.okTrivial("fresh|"+id, fn.Pos(), "no result shares storage with a parameter")
		}
	}
	// appending onto the storage of an immutable operand writes into spare capacity other values may share
	nApp := 0
	for _, fn := range a.fns {
		if !aliasScope(c, fn) {
			continue
		}
		for _, b := range fn.Blocks {
			for _, in := range b.Instrs {
				call, ok := in.(*ssa.Call)
				if !ok {
					continue
				}
				bi, ok := call.Common().Value.(*ssa.Builtin)
				if !ok || bi.Name() != "append" || len(call.Common().Args) == 0 {
					continue
				}
				nApp++
				for at := range a.t[call.Common().Args[0]] {
					if at.fn == fn && (at.kind == "Tuple" || at.kind == "Bytes") {
						id := ln.id(fn)
						r.bad(fmt.Sprintf("append|%s|%s", id, paramName(fn, at.idx)), call.Pos(),
							"%s appends onto the storage of its %s operand %s: the operand is immutable in Python but append writes into the spare capacity of its array, which an earlier result of the same kind may share (x += y; z = x; x += a; z += b makes x end in b)", id, at.kind, paramName(fn, at.idx))
					}
				}
			}
		}
	}
	r.ok("append|census", token.NoPos, "%d append calls examined: none extends the storage of an immutable (tuple/bytes) operand in place", nApp)
	sfinds, nsites := stackViewFindings(c, a, ln)
	for _, f := range sfinds {
		r.bad("stack|"+f.key, f.pos, "%s", f.what)
	}
	if nsites == 0 {
		r.undecided("stack|sites", token.NoPos, "no use of a Frame.Stack view found (expected: BUILD_* handlers and Vm.Call)")
	} else if len(sfinds) == 0 {
		r.ok("stack|all uses", token.NoPos, "%d uses of views of Frame.Stack: each is copied from, re-assigned to Frame.Stack, or passed as the argument vector of a call", nsites)
	}
	kwargsFreshness(c, a, ln, r)
}

// in-place operators of mutable containers evaluate to the receiver.
func runInPlaceIdentity(c *Ctx, r *Rep) {
	a := newAliasAn(c)
	ln := newLitNamer(c)
	n := 0
	for _, fn := range a.fns {
		if fn.Pkg == nil || shortPkg(fn.Pkg.Pkg.Path()) != "py" || fn.Signature.Recv() == nil {
			continue
		}
		name := fn.Name()
		if !(strings.HasPrefix(name, "M__i") && strings.HasSuffix(name, "__")) || name == "M__iter__" || name == "M__index__" || name == "M__int__" || name == "M__init__" || name == "M__invert__" {
			continue
		}
		k := a.containerKind(fn.Signature.Recv().Type())
		if !mutableKind(k) {
			continue
		}
		n++
		id := ln.id(fn)
		r.analysed(id)
		got := false
		if rs := a.ret[fn]; len(rs) > 0 {
			for at := range rs[0] {
				if at.fn == fn && at.idx == 0 && !at.elem {
					got = true
				}
			}
		}
		r.check(got, "inplace|"+id, fn.Pos(), "the in-place operator can evaluate to its receiver",
			"no path of "+id+" returns the receiver: x op= y on a mutable container must mutate x and evaluate to x, so that every alias of x sees the change (the result here is a different object)")
	}
	if n == 0 {
		r.undecided("inplace|none", token.NoPos, "no in-place operator method found on a mutable container type")
	}
	// a mutable container that defines the binary operator must define the in-place one too: without it `x op= y`
	// falls back to the binary operator and rebinds the name to a new object, so aliases of x do not see the change
	need := map[string][]string{"List": {"add", "mul"}, "Set": {"or", "and", "sub", "xor"}}
	for _, tn := range []string{"List", "Set"} {
		for _, op := range need[tn] {
			bin := c.Method("py", tn, "M__"+op+"__")
			if bin == nil {
				continue // the binary operator itself is not provided
			}
			inp := c.Method("py", tn, "M__i"+op+"__")
			r.check(inp != nil, "inplace|(*py."+tn+").M__i"+op+"__ exists", c.Decl(bin).Pos(),
				"the in-place form of the operator is defined",
				"*py."+tn+" defines __"+op+"__ but not __i"+op+"__: `x "+map[string]string{"add": "+", "mul": "*", "or": "|", "and": "&", "sub": "-", "xor": "^"}[op]+"= y` falls back to the binary operator and rebinds x to a new object instead of mutating it, so other references to the container do not see the change")
		}
	}
	// the list iterator refers to the list object, not to a view of its item array taken when iter() was called
	// (append during iteration must be seen; a view has a frozen length and goes stale when the array is reallocated)
	if m := c.Method("py", "List", "M__iter__"); m != nil {
		fn := c.SSAFunc(m)
		found := false
		for _, b := range fn.Blocks {
			for _, in := range b.Instrs {
				call, ok := in.(*ssa.Call)
				if !ok || call.Common().StaticCallee() == nil || call.Common().StaticCallee().Name() != "NewIterator" {
					continue
				}
				found = true
				r.check(paramIdentity(call.Common().Args[0]) == 0, "listiter|(*py.List).M__iter__", call.Pos(),
					"the list iterator is constructed over the list object itself",
					"the list iterator is constructed over "+exprOfValue(call.Common().Args[0])+" — a snapshot/view of the item array, not the list: items appended during iteration are not visited and the view goes stale when the array is reallocated")
			}
		}
		if !found {
			r.undecided("listiter|(*py.List).M__iter__", fn.Pos(), "no NewIterator call found in (*List).M__iter__; confirm how the list iterator refers to its list and update the rule")
		}
	} else {
		r.undecided("listiter|(*py.List).M__iter__", token.NoPos, "method not found")
	}
}

func init() {
	for _, prop := range []string{"C13", "C17"} {
		p := prop
		register(&Rule{ID: p + ".R1", Prop: p, Floor: 30,
			Doc: "storage-sharing census (may-alias propagation on go/ssa with per-function summaries, DESIGN.md A9): no function of py, vm or stdlib returns a container that shares its backing array / map with a container it was passed, or that is the operand itself, or makes one argument's storage part of another argument's object, unless it is on the reviewed list of operations Python defines as returning or referring to the operand; no view of the VM value stack becomes an object, is returned or kept; builtins do not keep their argument vector; the keyword dictionary passed at a call is built for that call",
			Run: runAliasCensus})
	}
	register(&Rule{ID: "C17.R2", Prop: "C17", Floor: 2,
		Doc: "in-place operators (__iadd__, __imul__, …) of mutable containers can evaluate to their receiver — a necessary condition for `x op= y` being visible through every alias of x; the list iterator is built over the list object, not over a view of its items taken at iter() time",
		Run: runInPlaceIdentity})
	debugHooks["alias"] = func(c *Ctx) {
		a := newAliasAn(c)
		ln := newLitNamer(c)
		finds, cov := aliasFindings(c, a, ln)
		fmt.Printf("%d functions\n", len(cov))
		for _, f := range finds {
			fmt.Printf("%-80s kind=%s  %s\n", f.key, f.kind, c.Pos(f.fn.Pos()))
		}
		sf, n := stackViewFindings(c, a, ln)
		fmt.Printf("stack sites %d\n", n)
		for _, f := range sf {
			fmt.Printf("STACK %s %s\n", f.key, c.Pos(f.pos))
		}
	}
}
