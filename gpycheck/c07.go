package main

import (
	"fmt"
	"go/ast"
	"go/constant"
	"go/token"
	"go/types"
	"math/big"
	"sort"
	"strings"

	"golang.org/x/tools/go/packages"
)

// C07 / C15: numeric operators. The values of arithmetic are out of reach of a static argument; what is
// decided here are necessary conditions visible in the shape of the code (DESIGN.md §4 C07):
//   R1  the representation constants are what their use assumes (IntMax, IntMin, sqrtIntMax = isqrt(IntMax), …)
//   R2  partial machine operators are guarded: -x needs x != IntMin, x / y and x % y need y != 0 (and, for
//       words, not IntMin / -1), shifts by a signed count need count >= 0, big.Int division needs a sign test
//   R3  an overflow guard compares in the direction of the limit it mentions (`> IntMax…`, `< IntMin…`)
//   R4  each rich comparison method uses the Go operator of its name
//   R5  reflected methods of non-commutative operators apply the operator with the operands exchanged
//   R6  no arm of a type switch is shadowed by an earlier arm

var numericFiles = map[string]bool{"int.go": true, "bigint.go": true, "float.go": true, "complex.go": true, "bool.go": true, "arithmetic.go": true}

func fileOf(c *Ctx, pos token.Pos) string {
	f := c.Fset.Position(pos).Filename
	if i := strings.LastIndex(f, "/"); i >= 0 {
		return f[i+1:]
	}
	return f
}

// ---- R1 constants ----

func runC07R1(c *Ctx, r *Rep) {
	get := func(name string) *big.Int {
		o := c.ConstObj("py", name)
		if o == nil {
			return nil
		}
		v := constant.ToInt(o.Val())
		if v.Kind() != constant.Int {
			return nil
		}
		b, ok := new(big.Int).SetString(v.ExactString(), 10)
		if !ok {
			return nil
		}
		return b
	}
	two63 := new(big.Int).Lsh(big.NewInt(1), 63)
	want := map[string]*big.Int{
		"IntMax": new(big.Int).Sub(two63, big.NewInt(1)),
		"IntMin": new(big.Int).Neg(two63),
	}
	for _, name := range []string{"IntMax", "IntMin"} {
		v := get(name)
		if v == nil {
			r.undecided("py|const "+name, token.NoPos, "constant not found or not an integer")
			continue
		}
		r.check(v.Cmp(want[name]) == 0, "py|const "+name, c.ConstObj("py", name).Pos(), name+" = "+want[name].String()+" (Int is a 64-bit word)",
			fmt.Sprintf("%s = %s; the word representation is int64, so the overflow guards need %s", name, v, want[name]))
	}
	// the representation type really is a 64-bit signed word
	if n := c.Named("py", "Int"); n != nil {
		b, ok := n.Underlying().(*types.Basic)
		r.check(ok && b.Kind() == types.Int64, "py|type Int", n.Obj().Pos(), "py.Int is int64", "py.Int is "+n.Underlying().String()+", not int64: IntMax/IntMin and every guard assume a 64-bit word")
	} else {
		r.undecided("py|type Int", token.NoPos, "type not found")
	}
	if v := get("sqrtIntMax"); v != nil {
		max := want["IntMax"]
		sq := new(big.Int).Sqrt(max)
		r.check(v.Cmp(sq) == 0, "py|const sqrtIntMax", c.ConstObj("py", "sqrtIntMax").Pos(), "sqrtIntMax = floor(sqrt(IntMax)) = "+sq.String()+": |a|,|b| <= sqrtIntMax implies |a*b| <= IntMax",
			fmt.Sprintf("sqrtIntMax = %s but floor(sqrt(IntMax)) = %s: with the larger bound %s*%s exceeds IntMax and the word product wraps; with a smaller one the guard is only conservative", v, sq, v, v))
	} else {
		r.undecided("py|const sqrtIntMax", token.NoPos, "constant not found; confirm how intMul bounds its operands and update the rule")
	}
	// float64 exponent range used by BigInt.Float
	if v := get("float64MaxExponent"); v != nil {
		r.check(v.Cmp(big.NewInt(1023)) == 0, "py|const float64MaxExponent", c.ConstObj("py", "float64MaxExponent").Pos(), "float64MaxExponent = 1023", "float64MaxExponent = "+v.String()+", IEEE-754 binary64 has maximum exponent 1023")
	}
	if v := get("float64MinExponent"); v != nil {
		r.check(v.Cmp(big.NewInt(-1022)) == 0, "py|const float64MinExponent", c.ConstObj("py", "float64MinExponent").Pos(), "float64MinExponent = -1022", "float64MinExponent = "+v.String()+", IEEE-754 binary64 has minimum normal exponent -1022")
	}
}

// ---- expression helpers ----

// stripConv removes conversions and parentheses: uint(b), float64(b), Float(b), (*big.Int)(b) -> b
func stripConv(info *types.Info, e ast.Expr) ast.Expr {
	for {
		switch x := e.(type) {
		case *ast.ParenExpr:
			e = x.X
		case *ast.CallExpr:
			if len(x.Args) == 1 {
				if tv, ok := info.Types[x.Fun]; ok && tv.IsType() {
					e = x.Args[0]
					continue
				}
			}
			return e
		case *ast.TypeAssertExpr:
			e = x.X
		default:
			return e
		}
	}
}

// normStr renders an expression with conversions and parentheses removed everywhere: (*big.Int)(b).Sign() -> b.Sign()
func normStr(info *types.Info, e ast.Expr) string {
	e = stripConv(info, e)
	switch x := e.(type) {
	case *ast.SelectorExpr:
		return normStr(info, x.X) + "." + x.Sel.Name
	case *ast.CallExpr:
		var as []string
		for _, a := range x.Args {
			as = append(as, normStr(info, a))
		}
		return normStr(info, x.Fun) + "(" + strings.Join(as, ", ") + ")"
	case *ast.UnaryExpr:
		return x.Op.String() + normStr(info, x.X)
	case *ast.BinaryExpr:
		return normStr(info, x.X) + " " + x.Op.String() + " " + normStr(info, x.Y)
	case *ast.StarExpr:
		return "*" + normStr(info, x.X)
	case *ast.Ident:
		if to, ok := normAlias[x.Name]; ok {
			return to
		}
	}
	return exprStr(e)
}

// normAlias: while a rule looks at one function, locals that are just another name for a parameter
// (`bBig := (*big.Int)(b)`) read as that parameter.
var normAlias map[string]string

// aliasesOf: the locals of body defined once from an expression that is `name` with conversions stripped.
func aliasesOf(info *types.Info, body *ast.BlockStmt, name string) map[string]string {
	out := map[string]string{}
	for local, origin := range localOrigins(info, body) {
		if local != name && origin != nil && normStr(info, origin) == name {
			out[local] = name
		}
	}
	return out
}

// localOrigins maps a local variable to the expression it was (once) defined from, conversions stripped.
func localOrigins(info *types.Info, body *ast.BlockStmt) map[string]ast.Expr {
	defs := map[string][]ast.Expr{}
	ast.Inspect(body, func(n ast.Node) bool {
		as, ok := n.(*ast.AssignStmt)
		if !ok {
			return true
		}
		if len(as.Lhs) == len(as.Rhs) {
			for i, l := range as.Lhs {
				if id, ok := l.(*ast.Ident); ok {
					defs[id.Name] = append(defs[id.Name], as.Rhs[i])
				}
			}
		} else {
			for _, l := range as.Lhs {
				if id, ok := l.(*ast.Ident); ok {
					defs[id.Name] = append(defs[id.Name], nil)
				}
			}
		}
		return true
	})
	out := map[string]ast.Expr{}
	for k, v := range defs {
		if len(v) == 1 && v[0] != nil {
			out[k] = stripConv(info, v[0])
		}
	}
	return out
}

// namesOf: the operand's own text and, if it is a local defined once from another expression, that origin too.
func namesOf(info *types.Info, e ast.Expr, orig map[string]ast.Expr) []string {
	e = stripConv(info, e)
	out := []string{normStr(info, e)}
	if id, ok := e.(*ast.Ident); ok {
		if o, ok := orig[id.Name]; ok {
			out = append(out, normStr(info, o))
		}
	}
	return out
}

type guardKind int

const (
	gZero guardKind = iota
	gIntMin
	gNeg
	gNegOperandNegated // the guarded value is -x: the good case is x < 0 / x <= 0
	gIntMinDividend    // x / y: the bad case is x == IntMin && y == -1
)

// condEstablishes reports whether cond (or a conjunct/disjunct of it) tests operand against the guard's constant,
// and in which polarity: +1 the condition being TRUE means the bad case (x == 0), -1 TRUE means the good case (x != 0).
func condEstablishes(info *types.Info, cond ast.Expr, names []string, k guardKind) int {
	cond = unparen(cond)
	if be, ok := cond.(*ast.BinaryExpr); ok {
		if be.Op == token.LAND || be.Op == token.LOR {
			if p := condEstablishes(info, be.X, names, k); p != 0 {
				return p
			}
			return condEstablishes(info, be.Y, names, k)
		}
		l, rr := normStr(info, be.X), normStr(info, be.Y)
		isName := func(s string) bool {
			for _, n := range names {
				if s == n || s == n+".Sign()" {
					return true
				}
			}
			return false
		}
		constIs := func(e ast.Expr, want string) bool {
			s := exprStr(stripConv(info, e))
			switch want {
			case "0":
				if tv, ok := info.Types[e]; ok && tv.Value != nil {
					if f, ok := constant.Float64Val(constant.ToFloat(tv.Value)); ok && f == 0 {
						return true
					}
				}
				return s == "0"
			case "IntMin":
				return s == "IntMin" || s == "math.MinInt64" || s == "py.IntMin"
			}
			return false
		}
		var op token.Token
		var other ast.Expr
		switch {
		case isName(l):
			op, other = be.Op, be.Y
		case isName(rr):
			op, other = flipOp(be.Op), be.X
		default:
			return 0
		}
		switch k {
		case gZero:
			if constIs(other, "0") {
				switch op {
				case token.EQL:
					return +1
				case token.NEQ, token.GTR, token.LSS:
					return -1
				}
			}
		case gIntMin:
			if constIs(other, "IntMin") {
				switch op {
				case token.EQL:
					return +1
				case token.NEQ, token.GTR:
					return -1
				}
			}
		case gNeg:
			if constIs(other, "0") {
				switch op {
				case token.LSS:
					return +1
				case token.GEQ, token.GTR:
					return -1
				}
			}
		case gNegOperandNegated:
			if constIs(other, "0") {
				switch op {
				case token.GTR:
					return +1
				case token.LSS, token.LEQ:
					return -1
				}
			}
		case gIntMinDividend:
			if constIs(other, "IntMin") {
				switch op {
				case token.EQL:
					return +1
				case token.NEQ, token.GTR:
					return -1
				}
			}
		}
	}
	return 0
}

func flipOp(op token.Token) token.Token {
	switch op {
	case token.LSS:
		return token.GTR
	case token.GTR:
		return token.LSS
	case token.LEQ:
		return token.GEQ
	case token.GEQ:
		return token.LEQ
	}
	return op
}

func blockTerminates(b *ast.BlockStmt) bool {
	if b == nil || len(b.List) == 0 {
		return false
	}
	switch x := b.List[len(b.List)-1].(type) {
	case *ast.ReturnStmt:
		return true
	case *ast.BranchStmt:
		return x.Tok == token.GOTO || x.Tok == token.CONTINUE || x.Tok == token.BREAK
	case *ast.ExprStmt:
		if call, ok := x.X.(*ast.CallExpr); ok {
			if id, ok := call.Fun.(*ast.Ident); ok && id.Name == "panic" {
				return true
			}
		}
	}
	return false
}

// guarded: is the operation at pos protected by a test of `names` of kind k?
// Accepted shapes: an earlier `if bad { …terminates }` at a block enclosing the operation; the operation inside the
// body of `if good {…}`; inside the else of `if bad {…} else {…}`; or to the right of `good &&` / `bad ||`.
func guarded(info *types.Info, body *ast.BlockStmt, op ast.Node, names []string, k guardKind) bool {
	ok := false
	var walk func(stmts []ast.Stmt) bool // returns true when op is inside stmts
	contains := func(n ast.Node) bool { return n != nil && n.Pos() <= op.Pos() && op.End() <= n.End() }
	walk = func(stmts []ast.Stmt) bool {
		inside := false
		for _, s := range stmts {
			if contains(s) {
				inside = true
				switch x := s.(type) {
				case *ast.IfStmt:
					p := condEstablishes(info, x.Cond, names, k)
					if contains(x.Cond) {
						// short-circuit guard inside the same condition
						if shortCircuit(info, x.Cond, op, names, k) {
							ok = true
						}
					}
					if contains(x.Body) {
						if p == -1 && !isDisjunction(x.Cond) {
							ok = true
						}
						walk(x.Body.List)
					} else if x.Else != nil && contains(x.Else) {
						if p == +1 && !isConjunction(x.Cond) {
							ok = true
						}
						switch e := x.Else.(type) {
						case *ast.BlockStmt:
							walk(e.List)
						case *ast.IfStmt:
							walk([]ast.Stmt{e})
						}
					}
				default:
					ast.Inspect(s, func(n ast.Node) bool {
						if _, isSw := n.(*ast.SwitchStmt); n == nil || (n == s && !isCaseClause(s) && !isSw) {
							return true
						}
						switch y := n.(type) {
						case *ast.SwitchStmt:
							// a tagless switch tries its cases in order: in a later arm every earlier case was false
							if y.Tag == nil && contains(y.Body) {
								badSeen := false
								for _, cl := range y.Body.List {
									cc := cl.(*ast.CaseClause)
									if contains(cc) {
										inBody := false
										for _, bs := range cc.Body {
											if bs.Pos() <= op.Pos() && op.End() <= bs.End() {
												inBody = true
											}
										}
										if badSeen && (inBody || cc.List == nil) {
											ok = true
										}
										break
									}
									if len(cc.List) == 1 && condEstablishes(info, cc.List[0], names, k) == +1 && !isConjunction(cc.List[0]) {
										badSeen = true
									}
								}
							}
							return true
						case *ast.BlockStmt:
							if contains(y) {
								walk(y.List)
							}
							return false
						case *ast.CaseClause:
							if contains(y) {
								for _, ce := range y.List {
									if tv, has := info.Types[ce]; has && tv.Type != nil && (tv.Type.String() == "bool" || tv.Type.String() == "untyped bool") {
										if condEstablishes(info, ce, names, k) == -1 && !isDisjunction(ce) && len(y.List) == 1 {
											ok2 := false
											for _, bs := range y.Body {
												if bs.Pos() <= op.Pos() && op.End() <= bs.End() {
													ok2 = true
												}
											}
											if ok2 {
												ok = true
											}
										}
									}
								}
								walk(y.Body)
							}
							return false
						case *ast.BinaryExpr:
							if contains(y) && (y.Op == token.LAND || y.Op == token.LOR) && shortCircuit(info, y, op, names, k) {
								ok = true
							}
						}
						return true
					})
				}
				break
			}
			// a statement before the operation at this level
			if is, isIf := s.(*ast.IfStmt); isIf && s.End() <= op.Pos() {
				if condEstablishes(info, is.Cond, names, k) == +1 && (!isConjunction(is.Cond) || k == gIntMinDividend && strings.Contains(exprStr(is.Cond), "== -1")) && blockTerminates(is.Body) {
					ok = true
				}
			}
		}
		return inside
	}
	walk(body.List)
	return ok
}

// guardedAtCallers: the operand is an (unassigned… or only sign-normalised) parameter of an unexported function,
// and at every call of that function in the package the argument passed for it is a variable guarded, at the call,
// by a test of the required kind. Returns the callers' names, or "" when this does not hold.
func guardedAtCallers(c *Ctx, p *packages.Package, fd *ast.FuncDecl, names []string, k guardKind) string {
	if fd.Name.IsExported() || fd.Type.Params == nil || len(names) == 0 {
		return ""
	}
	self, _ := p.TypesInfo.Defs[fd.Name].(*types.Func)
	if self == nil {
		return ""
	}
	idx := -1
	i := 0
	for _, f := range fd.Type.Params.List {
		for _, nm := range f.Names {
			if nm.Name == names[0] {
				idx = i
			}
			i++
		}
	}
	if idx < 0 {
		return ""
	}
	info := p.TypesInfo
	var from []string
	sites := 0
	okAll := true
	for _, file := range c.Files(p) {
		for _, d := range file.Decls {
			od, ok := d.(*ast.FuncDecl)
			if !ok || od.Body == nil {
				continue
			}
			ast.Inspect(od.Body, func(n ast.Node) bool {
				call, ok := n.(*ast.CallExpr)
				if !ok || Callee(info, call) != self {
					return true
				}
				sites++
				if idx >= len(call.Args) {
					okAll = false
					return true
				}
				aid := identOf(stripConv(info, call.Args[idx]))
				if aid == nil || !guarded(info, od.Body, call, []string{aid.Name}, k) {
					okAll = false
					return true
				}
				from = append(from, declID(p, od))
				return true
			})
		}
	}
	if sites == 0 || !okAll {
		return ""
	}
	return strings.Join(uniq(from), ", ")
}

func isConjunction(e ast.Expr) bool {
	be, ok := unparen(e).(*ast.BinaryExpr)
	return ok && be.Op == token.LAND
}
func isDisjunction(e ast.Expr) bool {
	be, ok := unparen(e).(*ast.BinaryExpr)
	return ok && be.Op == token.LOR
}

// shortCircuit: op sits in the right operand of `good && …` or `bad || …`.
func shortCircuit(info *types.Info, cond ast.Expr, op ast.Node, names []string, k guardKind) bool {
	be, ok := unparen(cond).(*ast.BinaryExpr)
	if !ok || (be.Op != token.LAND && be.Op != token.LOR) {
		return false
	}
	inY := be.Y.Pos() <= op.Pos() && op.End() <= be.Y.End()
	if inY {
		p := condEstablishes(info, be.X, names, k)
		if be.Op == token.LAND && p == -1 || be.Op == token.LOR && p == +1 {
			return true
		}
		return shortCircuit(info, be.Y, op, names, k)
	}
	return shortCircuit(info, be.X, op, names, k)
}

// ---- R2 guarded operators ----

func isWordInt(t types.Type) bool {
	b, ok := t.Underlying().(*types.Basic)
	return ok && b.Info()&types.IsInteger != 0 && b.Info()&types.IsUnsigned == 0
}
func isFloatT(t types.Type) bool {
	b, ok := t.Underlying().(*types.Basic)
	return ok && (b.Info()&types.IsFloat != 0 || b.Info()&types.IsComplex != 0)
}

// confirmedGuards: operations that need no guard, confirmed by reading. Key: "<func>|<op text>".
var confirmedGuards = map[string]string{
	"(*py.BigInt).M__round__|big.Mod divisor scale": "scale = 10**(-b) with b < 0 established above, so scale >= 10",
	"(py.Int).M__round__|-b":                        "b < 0 and b > -19 are established above (b >= 0 returns, b <= -19 promotes), so -b is in 1..18",
	"(py.Int).M__round__|-r":                        "r starts as a with a != IntMin established by the promotion test above; the second negation applies to the rounded magnitude, which is at most 10**18-scaled and non-negative",
	"(py.Int).M__round__|r % scale divisor":         "scale = 10**(-b) with -b in 1..18, never zero",
	"(py.Int).M__round__|r / scale divisor":         "scale = 10**(-b) with -b in 1..18, never zero",
	"(py.Int).M__round__|r / scale dividend":        "r is the non-negative magnitude (a != IntMin established above) and scale >= 10, so this is not IntMin / -1",
	"(*py.BigInt).M__round__|big.Quo divisor scale": "scale = 10**(-b) with b < 0 established above, so scale >= 10",
	"py.IntFromString|-i":                           "i is parsed from at most 18 decimal digits (or 12 digits in a base <= 36), so |i| < 2**63 and i != IntMin",
}

func runGuardedOps(c *Ctx, r *Rep, prop string, files map[string]bool, pkgs []string) {
	n := 0
	for _, rel := range pkgs {
		p := c.Pkg(rel)
		if p == nil {
			continue
		}
		info := p.TypesInfo
		for _, file := range c.Files(p) {
			fname := fileOf(c, file.Pos())
			if rel == "py" && !files[fname] {
				continue
			}
			for _, d := range file.Decls {
				fd, ok := d.(*ast.FuncDecl)
				if !ok || fd.Body == nil {
					continue
				}
				id := declID(p, fd)
				orig := localOrigins(info, fd.Body)
				isValueOperand := func(e ast.Expr) bool {
					tv, ok := info.Types[e]
					return ok && tv.Value == nil
				}
				check := func(op ast.Node, operand ast.Expr, k guardKind, what, why string) {
					if !isValueOperand(operand) {
						return
					}
					n++
					names := namesOf(info, operand, orig)
					if ue, ok := stripConv(info, operand).(*ast.UnaryExpr); ok && ue.Op == token.SUB && k == gNeg {
						// a count -x is non-negative where x < 0 (or x <= 0) holds
						names = namesOf(info, ue.X, orig)
						k = gNegOperandNegated
					}
					key := fmt.Sprintf("%s|%s", id, what)
					if reason, ok := confirmedGuards[key]; ok {
						r.ok("guard|"+key, op.Pos(), "confirmed: %s", reason)
						return
					}
					if guarded(info, fd.Body, op, names, k) {
						r.ok("guard|"+key, op.Pos(), "guarded by a test of %s", names[0])
					} else if from := guardedAtCallers(c, p, fd, names, k); from != "" {
						r.ok("guard|"+key, op.Pos(), "%s is a parameter of this helper; every call in the package passes an operand guarded there (%s)", names[0], from)
					} else {
						r.bad("guard|"+key, op.Pos(), "%s", why)
					}
				}
				ast.Inspect(fd.Body, func(nd ast.Node) bool {
					switch x := nd.(type) {
					case *ast.UnaryExpr:
						if x.Op == token.SUB {
							if tv, ok := info.Types[x.X]; ok && tv.Value == nil && isWordInt(tv.Type) && is64(tv.Type) {
								check(x, x.X, gIntMin, "-"+exprStr(x.X),
									fmt.Sprintf("-%s on a 64-bit word without excluding IntMin: -IntMin wraps to IntMin in Go, Python defines 2**63 (promote first, as M__neg__ does)", exprStr(x.X)))
							}
						}
					case *ast.BinaryExpr:
						tv, ok := info.Types[x]
						if !ok || tv.Value != nil {
							return true
						}
						switch x.Op {
						case token.QUO, token.REM:
							if isWordInt(tv.Type) || isFloatT(tv.Type) {
								check(x, x.Y, gZero, exprStr(x.X)+" "+x.Op.String()+" "+exprStr(x.Y)+" divisor",
									fmt.Sprintf("%s %s %s without a zero test of the divisor: Go panics (words) or yields Inf/NaN (floats), Python raises ZeroDivisionError", exprStr(x.X), x.Op, exprStr(x.Y)))
							}
							if x.Op == token.QUO && isWordInt(tv.Type) && is64(tv.Type) {
								check(x, x.X, gIntMinDividend, exprStr(x.X)+" / "+exprStr(x.Y)+" dividend",
									fmt.Sprintf("%s / %s on 64-bit words without excluding IntMin / -1: Go yields IntMin (two's-complement overflow), Python defines 2**63", exprStr(x.X), exprStr(x.Y)))
							}
						case token.SHL, token.SHR:
							// shift count converted from a signed value
							cnt := stripConv(info, x.Y)
							if ctv, ok := info.Types[cnt]; ok && ctv.Value == nil && isWordInt(ctv.Type) && cnt != x.Y {
								check(x, x.Y, gNeg, exprStr(x.X)+" "+x.Op.String()+" "+exprStr(x.Y)+" count",
									fmt.Sprintf("%s %s %s: the signed count %s is converted to unsigned without a test for < 0; a negative count becomes a huge shift instead of ValueError('negative shift count')", exprStr(x.X), x.Op, exprStr(x.Y), exprStr(cnt)))
							}
						}
					case *ast.CallExpr:
						// (*big.Int).Div/Mod/Quo/Rem/DivMod/QuoRem panic on a zero divisor; Lsh/Rsh take uint
						if sel, ok := x.Fun.(*ast.SelectorExpr); ok {
							if fn, ok := info.Uses[sel.Sel].(*types.Func); ok && fn.Pkg() != nil && fn.Pkg().Path() == "math/big" {
								switch fn.Name() {
								case "Div", "Mod", "Quo", "Rem", "DivMod", "QuoRem":
									if len(x.Args) >= 2 {
										check(x, x.Args[1], gZero, "big."+fn.Name()+" divisor "+exprStr(stripConv(info, x.Args[1])),
											fmt.Sprintf("big.Int.%s with divisor %s without a zero test: math/big panics on division by zero, Python raises ZeroDivisionError", fn.Name(), exprStr(x.Args[1])))
									}
								case "Lsh", "Rsh":
									if len(x.Args) == 2 {
										cnt := stripConv(info, x.Args[1])
										if ctv, ok := info.Types[cnt]; ok && ctv.Value == nil && isWordInt(ctv.Type) && cnt != x.Args[1] {
											check(x, x.Args[1], gNeg, "big."+fn.Name()+" count "+exprStr(cnt),
												fmt.Sprintf("big.Int.%s by uint(%s) without a test for < 0: a negative count becomes a huge shift instead of ValueError", fn.Name(), exprStr(cnt)))
										}
									}
								}
							}
						}
					}
					return true
				})
			}
		}
	}
	if n == 0 {
		r.undecided("guard|sites", token.NoPos, "no partial operator found in the numeric files")
	}
}

func is64(t types.Type) bool {
	b, ok := t.Underlying().(*types.Basic)
	return ok && (b.Kind() == types.Int64)
}

// ---- R3 guard direction ----

func mentionsLimit(e ast.Expr) string {
	found := ""
	ast.Inspect(e, func(n ast.Node) bool {
		switch x := n.(type) {
		case *ast.Ident:
			if x.Name == "IntMax" || x.Name == "IntMin" {
				found = x.Name
			}
		case *ast.SelectorExpr:
			s := exprStr(x)
			if s == "math.MaxInt64" || s == "py.IntMax" {
				found = "IntMax"
			}
			if s == "math.MinInt64" || s == "py.IntMin" {
				found = "IntMin"
			}
		}
		return true
	})
	return found
}

func runC07R3(c *Ctx, r *Rep) {
	n := 0
	for _, rel := range []string{"py", "stdlib/builtin", "stdlib/math"} {
		p := c.Pkg(rel)
		if p == nil {
			continue
		}
		for _, file := range c.Files(p) {
			for _, d := range file.Decls {
				fd, ok := d.(*ast.FuncDecl)
				if !ok || fd.Body == nil {
					continue
				}
				id := declID(p, fd)
				// a guard kept in a flag: `over = b > IntMax-a … if !over { word } ; big`
				flagGuards := map[types.Object][]*ast.BinaryExpr{}
				ast.Inspect(fd.Body, func(nd ast.Node) bool {
					as, ok := nd.(*ast.AssignStmt)
					if !ok || len(as.Lhs) != 1 || len(as.Rhs) != 1 {
						return true
					}
					be, ok := unparen(as.Rhs[0]).(*ast.BinaryExpr)
					lid := identOf(as.Lhs[0])
					if !ok || lid == nil || mentionsLimit(be) == "" {
						return true
					}
					o := p.TypesInfo.Uses[lid]
					if o == nil {
						o = p.TypesInfo.Defs[lid]
					}
					if o != nil {
						flagGuards[o] = append(flagGuards[o], be)
					}
					return true
				})
				ast.Inspect(fd.Body, func(nd ast.Node) bool {
					is, ok := nd.(*ast.IfStmt)
					if !ok {
						return true
					}
					// the flag form: decide each comparison stored in the flag against the branch the flag selects
					if cond, neg := unparen(is.Cond), false; true {
						if u, ok := cond.(*ast.UnaryExpr); ok && u.Op == token.NOT {
							cond, neg = unparen(u.X), true
						}
						if fid, ok := cond.(*ast.Ident); ok && len(flagGuards[p.TypesInfo.Uses[fid]]) > 0 {
							big := func(n ast.Node) bool {
								hit := false
								if n == nil {
									return false
								}
								ast.Inspect(n, func(m ast.Node) bool {
									switch y := m.(type) {
									case *ast.SelectorExpr:
										if strings.HasPrefix(exprStr(y), "big.") {
											hit = true
										}
									case *ast.CallExpr:
										if cal := Callee(p.TypesInfo, y); cal != nil && cal.Pkg() == p.Types {
											if hd := c.Decl(cal); hd != nil && hd.Body != nil {
												ast.Inspect(hd.Body, func(k ast.Node) bool {
													if se, ok := k.(*ast.SelectorExpr); ok && strings.HasPrefix(exprStr(se), "big.") {
														hit = true
													}
													return !hit
												})
											}
										}
									}
									return !hit
								})
								return hit
							}
							// where the flag is true: the body (if flag) or what follows / the else (if !flag)
							var rest ast.Node = is.Else
							if rest == nil {
								var after []ast.Stmt
								ast.Inspect(fd.Body, func(m ast.Node) bool {
									if blk, ok := m.(*ast.BlockStmt); ok {
										for i, st := range blk.List {
											if st == ast.Stmt(is) {
												after = blk.List[i+1:]
											}
										}
									}
									return true
								})
								rest = &ast.BlockStmt{List: after}
							}
							trueIsBig := big(is.Body)
							if neg {
								trueIsBig = !big(is.Body) && big(rest)
							}
							for _, be := range flagGuards[p.TypesInfo.Uses[fid]] {
								limit, op := "", be.Op
								if l := mentionsLimit(be.Y); l != "" && mentionsLimit(be.X) == "" {
									limit = l
								} else if l := mentionsLimit(be.X); l != "" && mentionsLimit(be.Y) == "" {
									limit, op = l, flipOp(op)
								} else {
									continue
								}
								n++
								want := map[string][]token.Token{"IntMax": {token.GTR, token.GEQ}, "IntMin": {token.LSS, token.LEQ}}[limit]
								if !trueIsBig {
									want = map[string][]token.Token{"IntMax": {token.LSS, token.LEQ}, "IntMin": {token.GTR, token.GEQ}}[limit]
								}
								good := false
								for _, w := range want {
									if op == w {
										good = true
									}
								}
								key := fmt.Sprintf("%s|guard %s", id, exprStr(be))
								if good {
									r.ok("direction|"+key, be.Pos(), "guard against %s compares in its direction (%s), kept in a flag that selects %s", limit, op, map[bool]string{true: "the promoting branch", false: "the word branch"}[trueIsBig])
								} else {
									r.bad("direction|"+key, be.Pos(), "the guard `%s` (kept in a flag) selects %s with `%s` against an expression built on %s: a value beyond %s is on the other side of this comparison, so the overflowing operands take the word path and wrap", exprStr(be), map[bool]string{true: "the promoting branch", false: "the word branch"}[trueIsBig], op, limit, limit)
								}
							}
							return true
						}
					}
					be, ok := unparen(is.Cond).(*ast.BinaryExpr)
					if !ok {
						return true
					}
					switch be.Op {
					case token.LSS, token.GTR, token.LEQ, token.GEQ:
					default:
						return true
					}
					// one side is `LIMIT ± e` (arithmetic on the limit), the other does not mention a limit
					side := func(e ast.Expr) (string, bool) {
						b2, ok := unparen(e).(*ast.BinaryExpr)
						if !ok || (b2.Op != token.ADD && b2.Op != token.SUB) {
							return "", false
						}
						l := mentionsLimit(b2)
						return l, l != ""
					}
					var limit string
					op := be.Op
					if l, ok := side(be.Y); ok && mentionsLimit(be.X) == "" {
						limit = l
					} else if l, ok := side(be.X); ok && mentionsLimit(be.Y) == "" {
						limit = l
						op = flipOp(op)
					} else {
						return true
					}
					n++
					// which branch is the overflow branch?
					overflowBranch := false
					var usesBig func(n ast.Node, depth int) bool
					usesBig = func(n ast.Node, depth int) bool {
						hit := false
						ast.Inspect(n, func(m ast.Node) bool {
							switch y := m.(type) {
							case *ast.BranchStmt:
								if y.Tok == token.GOTO {
									hit = true
								}
							case *ast.SelectorExpr:
								if strings.HasPrefix(exprStr(y), "big.") {
									hit = true
								}
							case *ast.CallExpr:
								// the promotion written as a helper of the package
								if cal := Callee(p.TypesInfo, y); cal != nil && cal.Pkg() == p.Types && depth > 0 {
									if hd := c.Decl(cal); hd != nil && hd.Body != nil && usesBig(hd.Body, depth-1) {
										hit = true
									}
								}
							}
							return !hit
						})
						return hit
					}
					overflowBranch = usesBig(is.Body, 2)
					wantOps := map[string][]token.Token{"IntMax": {token.GTR, token.GEQ}, "IntMin": {token.LSS, token.LEQ}}[limit]
					if !overflowBranch {
						wantOps = map[string][]token.Token{"IntMax": {token.LSS, token.LEQ}, "IntMin": {token.GTR, token.GEQ}}[limit]
					}
					good := false
					for _, w := range wantOps {
						if op == w {
							good = true
						}
					}
					key := fmt.Sprintf("%s|guard %s", id, exprStr(is.Cond))
					branch := map[bool]string{true: "the promoting branch", false: "the word branch"}[overflowBranch]
					if good {
						r.ok("direction|"+key, is.Pos(), "guard against %s compares in its direction (%s); taken branch is %s", limit, op, branch)
					} else {
						r.bad("direction|"+key, is.Pos(), "the guard `%s` selects %s with `%s` against an expression built on %s: a value beyond %s is on the other side of this comparison, so the overflowing operands take the word path and wrap (and the harmless ones are promoted)", exprStr(is.Cond), branch, op, limit, limit)
					}
					return true
				})
			}
		}
	}
	if n == 0 {
		r.undecided("direction|sites", token.NoPos, "no guard of the form x OP (IntMax|IntMin ± y) found (expected in intAdd/intSub)")
	}
}

// ---- R4 comparison table ----

var cmpOps = map[string]token.Token{"M__lt__": token.LSS, "M__le__": token.LEQ, "M__eq__": token.EQL, "M__ne__": token.NEQ, "M__gt__": token.GTR, "M__ge__": token.GEQ}

func runCmpTable(c *Ctx, r *Rep, typeFilter func(string) bool) {
	p := c.MustPkg("py")
	n := 0
	for _, file := range c.Files(p) {
		for _, d := range file.Decls {
			fd, ok := d.(*ast.FuncDecl)
			if !ok || fd.Body == nil || fd.Recv == nil {
				continue
			}
			want, ok := cmpOps[fd.Name.Name]
			if !ok {
				continue
			}
			id := declID(p, fd)
			tname := exprStr(fd.Recv.List[0].Type)
			tname = strings.TrimPrefix(tname, "*")
			if !typeFilter(tname) {
				continue
			}
			recv := ""
			if len(fd.Recv.List[0].Names) == 1 {
				recv = fd.Recv.List[0].Names[0].Name
			}
			// find NewBool(X op Y) whose one side is built on the receiver
			found := 0
			ast.Inspect(fd.Body, func(nd ast.Node) bool {
				call, ok := nd.(*ast.CallExpr)
				if !ok || len(call.Args) != 1 {
					return true
				}
				if fid, ok := call.Fun.(*ast.Ident); !ok || fid.Name != "NewBool" {
					return true
				}
				be, ok := unparen(call.Args[0]).(*ast.BinaryExpr)
				if !ok {
					return true
				}
				op := be.Op
				l, rr := be.X, be.Y
				mentions := func(e ast.Expr, name string) bool {
					m := false
					ast.Inspect(e, func(x ast.Node) bool {
						if i, ok := x.(*ast.Ident); ok && i.Name == name {
							m = true
						}
						return true
					})
					return m
				}
				threeWay := false
				if lit, ok := unparen(rr).(*ast.BasicLit); ok && lit.Value == "0" {
					// three-way form cmp(recv, other) OP 0; receiver must be the first operand of the comparison
					threeWay = true
					if cc, ok := unparen(l).(*ast.CallExpr); ok {
						first := ast.Expr(nil)
						if sel, ok := cc.Fun.(*ast.SelectorExpr); ok && len(cc.Args) == 1 {
							first = sel.X // a.Cmp(b)
						}
						if len(cc.Args) == 2 {
							first = cc.Args[0] // Compare(a, b)
						}
						if first != nil && !mentions(first, recv) {
							op = flipOp(op)
						}
					}
				} else if !mentions(l, recv) && mentions(rr, recv) {
					op = flipOp(op)
				} else if !mentions(l, recv) {
					return true
				}
				found++
				n++
				form := "direct"
				if threeWay {
					form = "three-way"
				}
				r.check(op == want, fmt.Sprintf("cmp|%s", id), call.Pos(),
					fmt.Sprintf("%s comparison uses %s", form, want),
					fmt.Sprintf("%s returns NewBool(%s): the receiver is compared with `%s` where %s means `%s` — equal or boundary operands get the wrong answer", id, exprStr(call.Args[0]), op, strings.Trim(fd.Name.Name, "M_"), want))
				return true
			})
			if found == 0 {
				r.okTrivial("cmp|"+id+"|shape", fd.Pos(), "no NewBool(receiver OP other) in this method (delegates or compares element-wise); not covered by this rule")
			}
			r.analysed(id)
		}
	}
	if n == 0 {
		r.undecided("cmp|sites", token.NoPos, "no comparison method of the recognised shape found")
	}
}

// ---- R5 reflected operand order ----

var nonCommutative = map[string]bool{"sub": true, "truediv": true, "floordiv": true, "mod": true, "divmod": true, "pow": true, "lshift": true, "rshift": true}

// operandOrder finds the core operation of a method: an expression that has the receiver (or a local defined from it)
// and the converted other operand as two distinct operands. Returns "ab" (receiver first), "ba", or "".
func operandOrder(info *types.Info, fd *ast.FuncDecl) (string, ast.Node) {
	if fd.Recv == nil || len(fd.Recv.List[0].Names) != 1 || fd.Type.Params == nil || len(fd.Type.Params.List) == 0 {
		return "", nil
	}
	recv := fd.Recv.List[0].Names[0].Name
	other := ""
	if len(fd.Type.Params.List[0].Names) > 0 {
		other = fd.Type.Params.List[0].Names[0].Name
	}
	// classify locals: derived from recv ("a") or from other ("b")
	class := map[string]string{recv: "a", other: "b"}
	for pass := 0; pass < 3; pass++ {
		ast.Inspect(fd.Body, func(n ast.Node) bool {
			as, ok := n.(*ast.AssignStmt)
			if !ok || as.Tok != token.DEFINE {
				return true
			}
			var rhs ast.Expr
			if len(as.Rhs) == 1 {
				rhs = as.Rhs[0]
			}
			if rhs == nil {
				return true
			}
			m := map[string]bool{}
			ast.Inspect(rhs, func(x ast.Node) bool {
				if i, ok := x.(*ast.Ident); ok {
					if cl, ok := class[i.Name]; ok {
						m[cl] = true
					}
				}
				return true
			})
			if len(m) == 1 {
				for cl := range m {
					if id, ok := as.Lhs[0].(*ast.Ident); ok && id.Name != "_" {
						if _, seen := class[id.Name]; !seen {
							class[id.Name] = cl
						}
					}
				}
			}
			return true
		})
	}
	classOf := func(e ast.Expr) string {
		e = stripConv(info, e)
		m := map[string]bool{}
		ast.Inspect(e, func(x ast.Node) bool {
			if i, ok := x.(*ast.Ident); ok {
				if cl, ok := class[i.Name]; ok {
					m[cl] = true
				}
			}
			return true
		})
		if len(m) == 1 {
			for cl := range m {
				return cl
			}
		}
		return ""
	}
	order, where := "", ast.Node(nil)
	ast.Inspect(fd.Body, func(n ast.Node) bool {
		if order != "" {
			return false
		}
		var ops []ast.Expr
		switch x := n.(type) {
		case *ast.BinaryExpr:
			switch x.Op {
			case token.SUB, token.QUO, token.REM, token.SHL, token.SHR, token.ADD, token.MUL, token.AND, token.OR, token.XOR:
				ops = []ast.Expr{x.X, x.Y}
			}
		case *ast.CallExpr:
			if tv, ok := info.Types[x.Fun]; ok && tv.IsType() {
				return true
			}
			if sel, ok := x.Fun.(*ast.SelectorExpr); ok {
				if strings.HasPrefix(sel.Sel.Name, "M__") {
					return true // delegation to another special method: the order is decided there
				}
				if id := identOfExpr(sel.X); id == nil || info.Uses[id] == nil {
					ops = append(ops, sel.X)
				} else if _, isPkg := info.Uses[id].(*types.PkgName); !isPkg {
					ops = append(ops, sel.X)
				}
			}
			ops = append(ops, x.Args...)
		}
		if len(ops) < 2 {
			return true
		}
		var seq []string
		for _, o := range ops {
			if cl := classOf(o); cl != "" {
				seq = append(seq, cl)
			}
		}
		s := strings.Join(seq, "")
		switch {
		case strings.HasPrefix(s, "ab"):
			order, where = "ab", n
		case strings.HasPrefix(s, "ba"):
			order, where = "ba", n
		}
		return true
	})
	return order, where
}

func identOfExpr(e ast.Expr) *ast.Ident {
	if id, ok := e.(*ast.Ident); ok {
		return id
	}
	return nil
}

func runReflectedOrder(c *Ctx, r *Rep, typeFilter func(string) bool) {
	p := c.MustPkg("py")
	info := p.TypesInfo
	type key struct{ t, op string }
	fwd := map[key]*ast.FuncDecl{}
	rev := map[key]*ast.FuncDecl{}
	for _, file := range c.Files(p) {
		for _, d := range file.Decls {
			fd, ok := d.(*ast.FuncDecl)
			if !ok || fd.Body == nil || fd.Recv == nil {
				continue
			}
			name := fd.Name.Name
			if !strings.HasPrefix(name, "M__") || !strings.HasSuffix(name, "__") {
				continue
			}
			tname := strings.TrimPrefix(exprStr(fd.Recv.List[0].Type), "*")
			if !typeFilter(tname) {
				continue
			}
			op := strings.TrimSuffix(strings.TrimPrefix(name, "M__"), "__")
			if nonCommutative[op] {
				fwd[key{tname, op}] = fd
			} else if strings.HasPrefix(op, "r") && nonCommutative[op[1:]] {
				rev[key{tname, op[1:]}] = fd
			}
		}
	}
	var keys []key
	for k := range rev {
		keys = append(keys, k)
	}
	sort.Slice(keys, func(i, j int) bool { return keys[i].t+keys[i].op < keys[j].t+keys[j].op })
	n := 0
	for _, k := range keys {
		rf := rev[k]
		ff := fwd[k]
		id := declID(p, rf)
		r.analysed(id)
		ro, rwhere := operandOrder(info, rf)
		if ro == "" {
			r.okTrivial("reflected|"+id+"|shape", rf.Pos(), "no core operation with both operands recognised (delegates); not covered")
			continue
		}
		n++
		if ff != nil {
			if fo, _ := operandOrder(info, ff); fo == "ba" {
				r.bad("reflected|"+declID(p, ff), ff.Pos(), "the forward method applies the operator with the operands exchanged (other first)")
			}
		}
		r.check(ro == "ba", "reflected|"+id, rwhere.Pos(),
			"reflected method applies the operator as other OP self",
			fmt.Sprintf("%s applies the operator as self OP other (`%s`): x %s y with y's reflected method must compute x OP y, i.e. other first — the operator is not commutative", id, nodeStr(rwhere), k.op))
	}
	if n == 0 {
		r.undecided("reflected|sites", token.NoPos, "no reflected method of a non-commutative operator with a recognisable core operation")
	}
}

func nodeStr(n ast.Node) string {
	if e, ok := n.(ast.Expr); ok {
		return exprStr(e)
	}
	return fmt.Sprintf("%T", n)
}

// ---- R6 shadowed type-switch arms ----

func runShadowedArms(c *Ctx, r *Rep, pkgFilter func(*packages.Package) bool, prefix string) {
	n, nsw := 0, 0
	for _, p := range c.All {
		if !pkgFilter(p) {
			continue
		}
		info := p.TypesInfo
		for _, file := range c.Files(p) {
			for _, d := range file.Decls {
				fd, ok := d.(*ast.FuncDecl)
				if !ok || fd.Body == nil {
					continue
				}
				id := declID(p, fd)
				swIdx := 0
				ast.Inspect(fd.Body, func(nd ast.Node) bool {
					ts, ok := nd.(*ast.TypeSwitchStmt)
					if !ok {
						return true
					}
					swIdx++
					nsw++
					type arm struct {
						t   types.Type
						src string
						pos token.Pos
					}
					var earlier []arm
					for _, cl := range ts.Body.List {
						cc := cl.(*ast.CaseClause)
						for _, te := range cc.List {
							tv, ok := info.Types[te]
							if !ok || !tv.IsType() {
								continue // nil
							}
							n++
							t := tv.Type
							for _, e := range earlier {
								shadow := false
								if ei, ok := e.t.Underlying().(*types.Interface); ok {
									if types.Implements(t, ei) {
										shadow = true
									}
								} else if types.Identical(e.t, t) {
									shadow = true
								}
								if shadow {
									r.bad(fmt.Sprintf("%sshadow|%s|switch %d case %s", prefix, id, swIdx, exprStr(te)), te.Pos(),
										"case %s can never be taken: every value of that type already matches the earlier case %s, so the code written for %s is dead and such values get the other arm's treatment", exprStr(te), e.src, exprStr(te))
									break
								}
							}
							earlier = append(earlier, arm{t, exprStr(te), te.Pos()})
						}
					}
					return true
				})
			}
		}
	}
	if nsw == 0 {
		r.undecided(prefix+"shadow|sites", token.NoPos, "no type switch found")
		return
	}
	r.ok(prefix+"shadow|census", token.NoPos, "%d type-switch cases in %d switches examined against the cases before them", n, nsw)
}

func init() {
	intTypes := func(t string) bool { return t == "Int" || t == "BigInt" || t == "Bool" }
	floatTypes := func(t string) bool { return t == "Float" || t == "Complex" }
	register(&Rule{ID: "C07.R1", Prop: "C07", Floor: 4,
		Doc: "representation constants, evaluated by the type checker: py.Int is int64, IntMax = 2**63-1, IntMin = -2**63, sqrtIntMax = floor(sqrt(IntMax)) (the multiplication guard is sound exactly up to that bound), float64 exponent limits",
		Run: runC07R1})
	register(&Rule{ID: "C07.R2", Prop: "C07", Floor: 10,
		Doc: "partial machine operators in the integer code are guarded (typed AST, structured dominance): unary minus on a 64-bit word is preceded by an IntMin test; / and % by a zero test of the divisor and / on words by an IntMin test of the dividend; a shift by a count converted from a signed value by a test for < 0; math/big Div/Mod/Quo/Rem/QuoRem by a zero (Sign) test",
		Run: func(c *Ctx, r *Rep) {
			runGuardedOps(c, r, "C07", map[string]bool{"int.go": true, "bigint.go": true, "bool.go": true, "arithmetic.go": true}, []string{"py", "stdlib/builtin"})
		}})
	register(&Rule{ID: "C07.R3", Prop: "C07", Floor: 4,
		Doc: "overflow guards compare in the direction of the limit they are built on: a guard `x OP (IntMax ± y)` that selects the promoting branch uses > / >=, one built on IntMin uses < / <= (and the reverse when it selects the word branch)",
		Run: runC07R3})
	register(&Rule{ID: "C07.R4", Prop: "C07", Floor: 12,
		Doc: "comparison table for Int, BigInt and Bool: each rich comparison method returns NewBool(receiver OP other) — directly or as three-way Cmp(…) OP 0 — with the Go operator of its name (lt <, le <=, eq ==, ne !=, gt >, ge >=), mirrored when the receiver is the right operand",
		Run: func(c *Ctx, r *Rep) { runCmpTable(c, r, intTypes) }})
	register(&Rule{ID: "C07.R5", Prop: "C07", Floor: 8,
		Doc: "reflected methods of non-commutative operators (sub, truediv, floordiv, mod, divmod, pow, lshift, rshift) on Int and BigInt apply the core operation with the converted other operand first",
		Run: func(c *Ctx, r *Rep) { runReflectedOrder(c, r, intTypes) }})
	register(&Rule{ID: "C07.R6", Prop: "C07", Floor: 1,
		Doc: "no case of a type switch in py, stdlib or vm is shadowed by an earlier case (a concrete type after an interface it implements, an interface after one it embeds): the arbitrary-precision arms of the number-to-text builtins sit before the word-sized interface arms",
		Run: func(c *Ctx, r *Rep) {
			runShadowedArms(c, r, func(p *packages.Package) bool {
				s := shortPkg(p.PkgPath)
				return s == "py" || s == "vm" || strings.HasPrefix(s, "stdlib")
			}, "")
		}})
	register(&Rule{ID: "C15.R1", Prop: "C15", Floor: 2,
		Doc: "partial machine operators in the float, complex and int code (true division lives in int.go/bigint.go) are guarded: / and % (and math.Mod) on floats by a zero test of the divisor raising ZeroDivisionError; integer conversions as in C07.R2",
		Run: func(c *Ctx, r *Rep) {
			runGuardedOps(c, r, "C15", map[string]bool{"float.go": true, "complex.go": true, "int.go": true, "bigint.go": true}, []string{"py"})
		}})
	register(&Rule{ID: "C15.R2", Prop: "C15", Floor: 8,
		Doc: "comparison table for Float and Complex: each rich comparison method uses the Go operator of its name",
		Run: func(c *Ctx, r *Rep) { runCmpTable(c, r, floatTypes) }})
	register(&Rule{ID: "C15.R3", Prop: "C15", Floor: 5,
		Doc: "reflected methods of non-commutative operators on Float and Complex apply the core operation with the converted other operand first",
		Run: func(c *Ctx, r *Rep) { runReflectedOrder(c, r, floatTypes) }})
}

func isCaseClause(n ast.Node) bool {
	_, ok := n.(*ast.CaseClause)
	return ok
}
