package main

import (
	"go/ast"
	"go/token"
	"go/types"
	"sort"

	"golang.org/x/tools/go/packages"
)

// emitSite is one call of an emitter method of *compile.compiler with the set of
// opcode constants its opcode argument can take (resolved through local constant
// assignments and, for parameters, through the callers' arguments).
type emitSite struct {
	pos     token.Pos
	fn      string
	emitter string // Op, OpArg, Jump, OpName
	ops     []string
	unknown bool // some value could not be resolved to a constant
	call    *ast.CallExpr
}

type emitModel struct {
	pkg      *packages.Package
	compiler *types.Named
	emitters map[*types.Func]string
	sites    []*emitSite
}

func getEmitModel(c *Ctx, m *vmModel) *emitModel {
	p := c.MustPkg("compile")
	em := &emitModel{pkg: p, emitters: map[*types.Func]string{}}
	em.compiler = c.Named("compile", "compiler")
	if em.compiler == nil {
		panic("compile.compiler not found")
	}
	for _, n := range []string{"Op", "OpArg", "Jump", "OpName"} {
		if f := c.Method("compile", "compiler", n); f != nil {
			em.emitters[f] = n
		}
	}
	if len(em.emitters) < 3 {
		panic("emitter methods Op/OpArg/Jump of compile.compiler not found")
	}
	info := p.TypesInfo
	// index: function object -> decl ; and call sites per callee for parameter resolution
	type callSite struct {
		call *ast.CallExpr
		in   *ast.FuncDecl
	}
	callsTo := map[*types.Func][]callSite{}
	var decls []*ast.FuncDecl
	for _, f := range c.Files(p) {
		for _, d := range f.Decls {
			if fd, ok := d.(*ast.FuncDecl); ok && fd.Body != nil {
				decls = append(decls, fd)
				ast.Inspect(fd.Body, func(n ast.Node) bool {
					if call, ok := n.(*ast.CallExpr); ok {
						if fn := Callee(info, call); fn != nil {
							callsTo[fn] = append(callsTo[fn], callSite{call, fd})
						}
					}
					return true
				})
			}
		}
	}
	var resolve func(e ast.Expr, in *ast.FuncDecl, depth int) ([]string, bool)
	resolve = func(e ast.Expr, in *ast.FuncDecl, depth int) ([]string, bool) {
		if name, ok := m.opcodeOf(info, e); ok {
			return []string{name}, false
		}
		if depth > 3 {
			return nil, true
		}
		// the opcode chosen by a helper of the package: what its return statements give
		if call, ok := unparen(e).(*ast.CallExpr); ok {
			if fn := Callee(info, call); fn != nil && fn.Pkg() == p.Types {
				if hd := c.Decl(fn); hd != nil && hd.Body != nil {
					var out []string
					unk, nret := false, 0
					ast.Inspect(hd.Body, func(n ast.Node) bool {
						if _, isLit := n.(*ast.FuncLit); isLit {
							return false
						}
						if rs, ok := n.(*ast.ReturnStmt); ok && len(rs.Results) >= 1 {
							nret++
							o, u := resolve(rs.Results[0], hd, depth+1)
							out = append(out, o...)
							unk = unk || u
						}
						return true
					})
					if nret > 0 {
						return out, unk
					}
				}
			}
			return nil, true
		}
		// a field of an element of a read-only table literal of structs (family := &T[k]; family.load): that field
		// of any element
		if sel, ok := unparen(e).(*ast.SelectorExpr); ok {
			var tbl *arrayTable
			base := unparen(sel.X)
			if ix, ok := base.(*ast.IndexExpr); ok {
				tbl = arrayTableOf(c, info, ix.X)
			} else if bid, ok := base.(*ast.Ident); ok {
				obj := info.Uses[bid]
				ast.Inspect(in.Body, func(n ast.Node) bool {
					as, ok := n.(*ast.AssignStmt)
					if !ok || len(as.Lhs) != len(as.Rhs) {
						return true
					}
					for i, l := range as.Lhs {
						if lid := identOf(l); lid != nil && info.ObjectOf(lid) == obj && obj != nil {
							rhs := unparen(as.Rhs[i])
							if u, ok := rhs.(*ast.UnaryExpr); ok && u.Op == token.AND {
								rhs = unparen(u.X)
							}
							if ix, ok := rhs.(*ast.IndexExpr); ok {
								tbl = arrayTableOf(c, info, ix.X)
							}
						}
					}
					return true
				})
			}
			if tbl != nil && tbl.info == info {
				var out []string
				unk := false
				for _, cl := range tbl.elems {
					fe := fieldOfElem(info, cl, sel.Sel.Name)
					if fe == nil {
						return nil, true
					}
					o, u := resolve(fe, in, depth+1)
					out = append(out, o...)
					unk = unk || u
				}
				sort.Strings(out)
				return out, unk
			}
		}
		// the opcode looked up in a read-only table literal: any of its values
		if ix, ok := unparen(e).(*ast.IndexExpr); ok {
			if tl := tableLiteral(c, info, ix.X); tl != nil && tl.info == info {
				var out []string
				unk := false
				for _, en := range tl.entries {
					o, u := resolve(en.val, in, depth+1)
					out = append(out, o...)
					unk = unk || u
				}
				return out, unk
			}
			return nil, true
		}
		id, ok := unparen(e).(*ast.Ident)
		if !ok {
			return nil, true
		}
		obj, _ := info.Uses[id].(*types.Var)
		if obj == nil {
			return nil, true
		}
		// parameter?
		if in.Type.Params != nil {
			pi := 0
			for _, f := range in.Type.Params.List {
				for _, n := range f.Names {
					if info.Defs[n] == obj {
						fn, _ := info.Defs[in.Name].(*types.Func)
						var out []string
						unk := false
						if len(callsTo[fn]) == 0 {
							return nil, true
						}
						for _, cs := range callsTo[fn] {
							if pi < len(cs.call.Args) {
								o, u := resolve(cs.call.Args[pi], cs.in, depth+1)
								out = append(out, o...)
								unk = unk || u
							}
						}
						return out, unk
					}
					pi++
				}
			}
		}
		// local: all assignments in the function
		var out []string
		unk := false
		found := false
		ast.Inspect(in.Body, func(n ast.Node) bool {
			switch x := n.(type) {
			case *ast.AssignStmt:
				for i, l := range x.Lhs {
					lid, ok := l.(*ast.Ident)
					if !ok {
						continue
					}
					lo := info.Defs[lid]
					if lo == nil {
						lo = info.Uses[lid]
					}
					if lo != obj || i >= len(x.Rhs) {
						continue
					}
					found = true
					if tv, ok := info.Types[x.Rhs[i]]; ok && tv.Value != nil {
						if v, _ := constToInt(tv); v == 0 {
							continue // `op := vm.OpCode(0)` placeholder, guarded by the "Op not set" panic
						}
					}
					o, u := resolve(x.Rhs[i], in, depth+1)
					out = append(out, o...)
					unk = unk || u
				}
			case *ast.ValueSpec:
				for _, n := range x.Names {
					if info.Defs[n] == obj {
						found = true
						// `var op vm.OpCode` zero value: placeholder
						for _, v := range x.Values {
							o, u := resolve(v, in, depth+1)
							out = append(out, o...)
							unk = unk || u
						}
					}
				}
			}
			return true
		})
		if !found {
			return nil, true
		}
		return out, unk
	}
	for _, fd := range decls {
		ast.Inspect(fd.Body, func(n ast.Node) bool {
			call, ok := n.(*ast.CallExpr)
			if !ok || len(call.Args) == 0 {
				return true
			}
			kind, ok := em.emitters[Callee(info, call)]
			if !ok {
				return true
			}
			ops, unk := resolve(call.Args[0], fd, 0)
			ops = uniq(ops)
			em.sites = append(em.sites, &emitSite{pos: call.Pos(), fn: declID(p, fd), emitter: kind, ops: ops, unknown: unk, call: call})
			return true
		})
	}
	return em
}

func uniq(s []string) []string {
	sort.Strings(s)
	var out []string
	for i, x := range s {
		if i == 0 || s[i-1] != x {
			out = append(out, x)
		}
	}
	return out
}
