package main

import (
	"fmt"
	"go/ast"
	"go/parser"
	"go/token"
	"go/types"
	"sort"
	"strings"
)

// ---- C05.R5: an unlabelled break that cannot leave the loop it was written for ----

// ineffectiveBreaks: `break` inside a switch/select case (not inside a nearer for) whose only possible effect is to
// leave that switch although nothing follows it in the case — Go cases do not fall through, so the statement is
// either dead or was meant for the enclosing loop (the classic refactoring slip when an if-chain becomes a switch).
func ineffectiveBreaks(body ast.Node) []token.Pos {
	var out []token.Pos
	var walk func(n ast.Node, inLoop bool, inSwitchOfLoop bool, tail bool)
	// tail: the statement is in tail position of its switch case (nothing after it, possibly inside trailing ifs)
	var stmts func(list []ast.Stmt, inLoop, inSw, tail bool)
	stmts = func(list []ast.Stmt, inLoop, inSw, tail bool) {
		for i, s := range list {
			walk(s, inLoop, inSw, tail && i == len(list)-1)
		}
	}
	walk = func(n ast.Node, inLoop, inSw, tail bool) {
		switch x := n.(type) {
		case nil:
		case *ast.BranchStmt:
			if x.Tok == token.BREAK && x.Label == nil && inLoop && inSw && tail {
				out = append(out, x.Pos())
			}
		case *ast.BlockStmt:
			stmts(x.List, inLoop, inSw, tail)
		case *ast.IfStmt:
			walk(x.Body, inLoop, inSw, tail)
			if x.Else != nil {
				walk(x.Else, inLoop, inSw, tail)
			}
		case *ast.ForStmt:
			walk(x.Body, true, false, false)
		case *ast.RangeStmt:
			walk(x.Body, true, false, false)
		case *ast.SwitchStmt:
			for _, cl := range x.Body.List {
				stmts(cl.(*ast.CaseClause).Body, inLoop, inLoop, true)
			}
		case *ast.TypeSwitchStmt:
			for _, cl := range x.Body.List {
				stmts(cl.(*ast.CaseClause).Body, inLoop, inLoop, true)
			}
		case *ast.SelectStmt:
			for _, cl := range x.Body.List {
				stmts(cl.(*ast.CommClause).Body, inLoop, inLoop, true)
			}
		case *ast.LabeledStmt:
			walk(x.Stmt, inLoop, inSw, tail)
		case *ast.FuncLit:
			// separate function
		default:
			// closures inside expressions
			ast.Inspect(n, func(m ast.Node) bool {
				if fl, ok := m.(*ast.FuncLit); ok {
					walk(fl.Body, false, false, false)
					return false
				}
				return true
			})
		}
	}
	walk(body, false, false, false)
	return out
}

const breakExample = `package p
func f(next func() (int, error), fn func(int) bool) error {
	for {
		item, err := next()
		switch {
		case err == nil:
			if fn(item) {
				break
			}
		default:
			return err
		}
	}
}
func g(xs []int) int {
	n := 0
	for _, x := range xs {
		switch {
		case x > 0:
			if x > 9 {
				break
			}
			n++
		}
	}
	return n
}`

func runIneffectiveBreak(c *Ctx, r *Rep) {
	f, err := parser.ParseFile(token.NewFileSet(), "example.go", breakExample, 0)
	if err != nil {
		r.undecided("break|selftest", token.NoPos, "example does not parse")
		return
	}
	a := ineffectiveBreaks(f.Decls[0].(*ast.FuncDecl).Body)
	b := ineffectiveBreaks(f.Decls[1].(*ast.FuncDecl).Body)
	if len(a) != 1 || len(b) != 0 {
		r.undecided("break|selftest", token.NoPos, "the matcher finds %d/%d in its own examples, expected 1/0", len(a), len(b))
		return
	}
	r.okTrivial("break|selftest", token.NoPos, "the matcher flags the break of its built-in example and accepts a break that skips the rest of its case")
	n := 0
	for _, p := range c.All {
		s := shortPkg(p.PkgPath)
		if !(s == "py" || s == "vm" || strings.HasPrefix(s, "stdlib") || s == "compile" || s == "parser" || s == "symtable" || s == "repl" || s == "ast") {
			continue
		}
		for _, file := range c.Files(p) {
			if fileOf(c, file.Pos()) == "y.go" {
				continue
			}
			for _, d := range file.Decls {
				fd, ok := d.(*ast.FuncDecl)
				if !ok || fd.Body == nil {
					continue
				}
				n++
				for i, pos := range ineffectiveBreaks(fd.Body) {
					r.bad(fmt.Sprintf("break|%s|#%d", declID(p, fd), i+1), pos, "this unlabelled `break` is the last thing its switch case does, so all it can leave is the switch — which ends there anyway; the enclosing loop keeps running. Where it was meant to stop the loop (an iteration callback asking to stop, a found element) the producer is driven on to exhaustion; label the loop or return")
				}
			}
		}
	}
	r.ok("break|census", token.NoPos, "%d functions examined: no unlabelled break in tail position of a switch case inside a loop", n)
}

// ---- C03.R8: the argument-slot count is computed the same way everywhere ----

func runTotalArgs(c *Ctx, r *Rep) {
	type def struct {
		id  string
		rhs string
		pos token.Pos
	}
	var defs []def
	for _, rel := range []string{"py", "vm"} {
		p := c.Pkg(rel)
		if p == nil {
			continue
		}
		for _, file := range c.Files(p) {
			for _, d := range file.Decls {
				fd, ok := d.(*ast.FuncDecl)
				if !ok || fd.Body == nil {
					continue
				}
				ast.Inspect(fd.Body, func(n ast.Node) bool {
					as, ok := n.(*ast.AssignStmt)
					if !ok || as.Tok != token.DEFINE || len(as.Lhs) != 1 || len(as.Rhs) != 1 {
						return true
					}
					rhs := normStr(p.TypesInfo, as.Rhs[0])
					if !strings.Contains(rhs, ".Argcount") {
						return true
					}
					// a slot count: later indexed against Varnames/fastlocals or incremented under CO_VARARGS — identified by also
					// being compared/added in the function as an upper bound of parameter indices; here: any := definition that adds to Argcount
					if _, ok := unparen(stripConv(p.TypesInfo, as.Rhs[0])).(*ast.BinaryExpr); !ok && exprStr(as.Lhs[0]) != "total_args" {
						return true
					}
					defs = append(defs, def{declID(p, fd) + "|" + exprStr(as.Lhs[0]), rhs, as.Pos()})
					return true
				})
			}
		}
	}
	sort.Slice(defs, func(i, j int) bool { return defs[i].id < defs[j].id })
	nslot := 0
	for _, d := range defs {
		if !strings.HasSuffix(d.id, "|total_args") {
			continue
		}
		nslot++
		parts := strings.Split(d.rhs, " + ")
		hasA, hasK := false, false
		for _, pt := range parts {
			if strings.HasSuffix(pt, ".Argcount") {
				hasA = true
			}
			if strings.HasSuffix(pt, ".Kwonlyargcount") {
				hasK = true
			}
		}
		r.check(hasA && hasK && len(parts) == 2, "slots|"+d.id, d.pos,
			"the number of named parameter slots is Argcount + Kwonlyargcount",
			fmt.Sprintf("%s = %s: the named parameters occupy the first Argcount + Kwonlyargcount variable slots (then *args, then **kwargs); with another count, keyword-only parameters and the star slots are mis-addressed (cell-to-argument mapping, keyword matching)", d.id, d.rhs))
	}
	if nslot < 2 {
		r.undecided("slots|definitions", token.NoPos, "expected the slot count total_args to be defined in vm.EvalCode and py.(*Code).InitCell2arg, found %d definition(s)", nslot)
	}
}

// ---- C09.R7: close callbacks are enumerated from the module table itself ----

func runCloseEnumeration(c *Ctx, r *Rep) {
	m := c.Method("py", "ModuleStore", "OnContextClosed")
	if m == nil {
		r.undecided("closeenum|(*py.ModuleStore).OnContextClosed", token.NoPos, "anchor function not found")
		return
	}
	p := c.MustPkg("py")
	fd := c.Expand(p, c.Decl(m)) // the per-module call may sit in a helper
	r.analysed("(*py.ModuleStore).OnContextClosed")
	var mapField *types.Var
	if st, ok := c.Named("py", "ModuleStore").Underlying().(*types.Struct); ok {
		for i := 0; i < st.NumFields(); i++ {
			if _, ok := st.Field(i).Type().Underlying().(*types.Map); ok {
				mapField = st.Field(i)
			}
		}
	}
	// the loop whose body invokes the per-module callback
	found := false
	ast.Inspect(fd.Body, func(n ast.Node) bool {
		var body *ast.BlockStmt
		var overMap bool
		var pos token.Pos
		switch x := n.(type) {
		case *ast.RangeStmt:
			body, pos = x.Body, x.Pos()
			if se, ok := x.X.(*ast.SelectorExpr); ok {
				if sel := p.TypesInfo.Selections[se]; sel != nil && sel.Obj() == mapField {
					overMap = true
				}
			}
		case *ast.ForStmt:
			body, pos = x.Body, x.Pos()
		default:
			return true
		}
		calls := false
		ast.Inspect(body, func(m ast.Node) bool {
			if call, ok := m.(*ast.CallExpr); ok && strings.HasSuffix(exprStr(call.Fun), "OnContextClosed") {
				calls = true
			}
			// the callback read into a local first and called through it
			if se, ok := m.(*ast.SelectorExpr); ok && se.Sel.Name == "OnContextClosed" {
				if v, ok := p.TypesInfo.Uses[se.Sel].(*types.Var); ok && v.IsField() {
					calls = true
				}
			}
			return true
		})
		if !calls {
			return true
		}
		found = true
		r.check(overMap, "closeenum|callbacks range over the module table", pos,
			"the close callbacks are invoked in a range over the store's module table: each registered module exactly once",
			"the loop that invokes the modules' OnContextClosed callbacks does not range over the store's module table itself: a separately kept list can name a module twice (re-registered __main__, re-initialised module) or miss one, so a callback runs twice or never on Close")
		return false
	})
	if !found {
		r.undecided("closeenum|loop", fd.Pos(), "no loop invoking OnContextClosed callbacks found")
	}
}

// ---- C11.R9: the assembler's give-up bound grows with the program ----

func runAssembleBound(c *Ctx, r *Rep) {
	m := c.Method("compile", "Instructions", "Assemble")
	if m == nil {
		r.undecided("assemble|(compile.Instructions).Assemble", token.NoPos, "anchor function not found")
		return
	}
	cp := c.MustPkg("compile")
	fd := c.Expand(cp, c.Decl(m)) // the fixpoint loop may live in a helper
	r.analysed("(compile.Instructions).Assemble")
	recv := ""
	if len(fd.Recv.List[0].Names) == 1 {
		recv = fd.Recv.List[0].Names[0].Name
	}
	found := false
	ast.Inspect(fd.Body, func(n ast.Node) bool {
		is, ok := n.(*ast.IfStmt)
		if !ok {
			return true
		}
		pan := false
		ast.Inspect(is.Body, func(m ast.Node) bool {
			if call, ok := m.(*ast.CallExpr); ok {
				if id, ok := call.Fun.(*ast.Ident); ok && id.Name == "panic" {
					pan = true
				}
			}
			return true
		})
		if !pan {
			return true
		}
		found = true
		scales := strings.Contains(exprStr(is.Cond), "len("+recv+")")
		// the bound hoisted into a local: maxPasses := 2*len(is) + 10
		for _, origin := range localOrigins(cp.TypesInfo, fd.Body) {
			_ = origin
		}
		ast.Inspect(is.Cond, func(m ast.Node) bool {
			if id, ok := m.(*ast.Ident); ok {
				if o := localOrigins(cp.TypesInfo, fd.Body)[id.Name]; o != nil && strings.Contains(exprStr(o), "len(") {
					scales = true
				}
			}
			return true
		})
		r.check(scales, "assemble|give-up bound scales with the code", is.Pos(),
			"the pass limit is a multiple of the number of instructions",
			fmt.Sprintf("the assembler gives up (panic, which surfaces as SystemError) when `%s`: a limit that does not grow with len(%s) rejects valid large programs — each pass may widen as few as one jump, so up to len(%s) passes can be needed", exprStr(is.Cond), recv, recv))
		return true
	})
	if !found {
		r.okTrivial("assemble|no give-up", fd.Pos(), "the assembly loop has no give-up panic")
	}
}

func init() {
	register(&Rule{ID: "C05.R5", Prop: "C05", Floor: 1,
		Doc: "no unlabelled break in tail position of a switch/select case inside a loop (it can only leave the switch, which ends there anyway): iteration hubs such as py.Iterate stop when the callback asks them to and do not drive the producer to exhaustion",
		Run: runIneffectiveBreak})
	register(&Rule{ID: "C03.R8", Prop: "C03", Floor: 2,
		Doc: "parameter-slot count agreement: every definition of total_args (vm.EvalCode, py.(*Code).InitCell2arg) is Argcount + Kwonlyargcount, so that cells, keyword matching and the star slots address the same variable slots",
		Run: runTotalArgs})
	register(&Rule{ID: "C09.R7", Prop: "C09", Floor: 1,
		Doc: "the module close callbacks run exactly once per registered module: ModuleStore.OnContextClosed invokes them in a range over the store's module table, not over a separately kept list",
		Run: runCloseEnumeration})
	register(&Rule{ID: "C11.R9", Prop: "C11", Floor: 1,
		Doc: "the assembler's give-up limit on layout passes is a multiple of the number of instructions (each pass may widen a single jump), so no valid program is rejected with SystemError for needing many passes",
		Run: runAssembleBound})
}
