package main

import (
	"fmt"
	"go/ast"
	"go/token"
	"go/types"
	"sort"
	"strings"

	"golang.org/x/tools/go/ssa"
)

// C16: attribute lookup. Decided here (DESIGN.md §4 C16):
//   R1  an attribute read on a class consults the class's OWN dictionary and MRO (not only its metatype) and binds
//       what it finds with __get__(None, class)
//   R2  the phases of the generic read come in the defined order: __getattribute__ hook, class path / instance
//       dictionary, type MRO with __get__(instance, type), __getattr__ hook, AttributeError
//   R3  isinstance decides through (*Type).IsSubtype (MRO walk), not through identity of types
//   R4  binding tables of Function, Method, ClassMethod, StaticMethod (decision tables, pathspec.go)
//   R5  C3 merge: a candidate is rejected if it is in the tail of ANY list to merge (inner loop over all lists)
//   R6  type(name, bases, ns) does not make ns the class dictionary (storage-sharing analysis on TypeNew)
//   R7  generic attribute write and delete change only the dictionary of the object they are applied to

type phase struct {
	name string
	pos  token.Pos
}

func runC16Read(c *Ctx, r *Rep) {
	fd := c.FuncDecl("py", "GetAttrString")
	if fd == nil || fd.Body == nil {
		r.undecided("read|py.GetAttrString", token.NoPos, "anchor function not found")
		return
	}
	p := c.MustPkg("py")
	info := p.TypesInfo
	r.analysed("py.GetAttrString")
	self := "self"
	if len(fd.Type.Params.List) > 0 && len(fd.Type.Params.List[0].Names) > 0 {
		self = fd.Type.Params.List[0].Names[0].Name
	}
	// variables bound to `self.(*Type)`, `self.(IGetDict)`, `self.Type()`, `X.GetDict()`
	classVars, typeVars, dictVars := map[string]bool{}, map[string]bool{}, map[string]bool{}
	ast.Inspect(fd.Body, func(n ast.Node) bool {
		as, ok := n.(*ast.AssignStmt)
		if !ok || len(as.Rhs) != 1 {
			return true
		}
		lhs0 := ""
		if id, ok := as.Lhs[0].(*ast.Ident); ok {
			lhs0 = id.Name
		}
		switch x := as.Rhs[0].(type) {
		case *ast.TypeAssertExpr:
			if exprStr(x.X) == self && x.Type != nil && exprStr(x.Type) == "*Type" {
				classVars[lhs0] = true
			}
		case *ast.CallExpr:
			s := exprStr(x.Fun)
			if s == self+".Type" {
				typeVars[lhs0] = true
			}
			if strings.HasSuffix(s, ".GetDict") {
				dictVars[lhs0] = true
			}
		}
		return true
	})
	var phases []phase
	var classGet, typeGet *ast.CallExpr
	var classLookup, typeLookup token.Pos
	add := func(name string, pos token.Pos) { phases = append(phases, phase{name, pos}) }
	ast.Inspect(fd.Body, func(n ast.Node) bool {
		switch x := n.(type) {
		case *ast.CallExpr:
			fn := Callee(info, x)
			name := ""
			if fn != nil {
				name = fn.Name()
			}
			switch {
			case name == "M__getattribute__":
				add("getattribute-hook", x.Pos())
			case name == "TypeCall1" && len(x.Args) >= 2 && strings.Contains(exprStr(x.Args[1]), "__getattribute__"):
				add("getattribute-hook", x.Pos())
			case name == "M__getattr__":
				add("getattr-hook", x.Pos())
			case name == "TypeCall1" && len(x.Args) >= 2 && strings.Contains(exprStr(x.Args[1]), "__getattr__"):
				add("getattr-hook", x.Pos())
			case name == "NativeGetAttrOrNil" || name == "Lookup" || name == "GetAttrOrNil":
				if sel, ok := x.Fun.(*ast.SelectorExpr); ok {
					recv := exprStr(sel.X)
					switch {
					case classVars[recv]:
						add("class-mro", x.Pos())
						classLookup = x.Pos()
					case typeVars[recv] || recv == self+".Type()":
						add("type-mro", x.Pos())
						typeLookup = x.Pos()
					}
				}
			case name == "M__get__" && len(x.Args) == 2:
				a0, a1 := exprStr(x.Args[0]), exprStr(x.Args[1])
				switch {
				case a0 == "None" && classVars[a1]:
					classGet = x
				case a0 == self && (typeVars[a1] || a1 == self+".Type()"):
					typeGet = x
				default:
					add("get?("+a0+","+a1+")", x.Pos())
				}
			case name == "ExceptionNewf" && len(x.Args) > 0 && exprStr(x.Args[0]) == "AttributeError":
				add("attribute-error", x.Pos())
			}
		case *ast.IndexExpr:
			if dictVars[exprStr(x.X)] {
				add("instance-dict", x.Pos())
			}
		}
		return true
	})
	sort.Slice(phases, func(i, j int) bool { return phases[i].pos < phases[j].pos })
	first := map[string]token.Pos{}
	last := map[string]token.Pos{}
	for _, ph := range phases {
		if _, ok := first[ph.name]; !ok {
			first[ph.name] = ph.pos
		}
		last[ph.name] = ph.pos
	}
	// R1: the class path
	if classLookup == token.NoPos {
		r.bad("read|class path", fd.Pos(), "GetAttrString never looks an attribute up along the MRO of the object itself when that object is a class (no Lookup/NativeGetAttrOrNil on %s.(*Type)): B.x for an attribute inherited from a base class, and classmethods/staticmethods read through the class, are not found or not bound", self)
	} else {
		r.ok("read|class path", classLookup, "a class is looked up along its own dictionary and MRO")
		r.check(classGet != nil && classGet.Pos() > classLookup, "read|class path binds with __get__(None, class)", classLookup,
			"what is found on the class is bound with __get__(None, class)",
			"what is found along the class's MRO is not passed through __get__(None, class): classmethods read through the class are not bound to it, staticmethods are not unwrapped")
	}
	// R2: order of the phases
	need := []string{"getattribute-hook", "instance-dict", "type-mro", "getattr-hook", "attribute-error"}
	for _, nme := range need {
		if _, ok := first[nme]; !ok {
			r.undecided("read|phase "+nme, fd.Pos(), "phase not recognised in GetAttrString; confirm how the generic read is structured and update the rule")
			return
		}
	}
	order := [][2]string{
		{"getattribute-hook", "instance-dict"}, {"getattribute-hook", "class-mro"}, {"instance-dict", "type-mro"}, {"class-mro", "type-mro"},
		{"type-mro", "getattr-hook"}, {"instance-dict", "getattr-hook"}, {"getattr-hook", "attribute-error"},
	}
	for _, o := range order {
		a, okA := last[o[0]]
		b, okB := first[o[1]]
		if !okA || !okB {
			continue
		}
		r.check(a < b, "read|order "+o[0]+" < "+o[1], b,
			o[0]+" comes before "+o[1],
			fmt.Sprintf("the phase %s (at %s) does not come before %s (at %s): the generic read must try them in that order — an instance attribute shadows the class's non-data attributes, and __getattr__ is a fallback only", o[0], c.Pos(a), o[1], c.Pos(b)))
	}
	r.check(typeGet != nil && typeGet.Pos() > typeLookup, "read|type path binds with __get__(instance, type)", typeLookup,
		"what is found on the type is bound with __get__(instance, type)",
		"what is found along the type's MRO is not passed through __get__(instance, type): functions are not bound to the instance")
	for _, ph := range phases {
		if strings.HasPrefix(ph.name, "get?") {
			r.bad("read|binding "+ph.name, ph.pos, "__get__ is called with arguments %s: the defined bindings are (None, class) for a read on a class and (instance, type) for a read on an instance", strings.TrimPrefix(ph.name, "get?"))
		}
	}
}

func runC16Isinstance(c *Ctx, r *Rep) {
	bi := c.Func("stdlib/builtin", "builtin_isinstance")
	sub := c.Method("py", "Type", "IsSubtype")
	if bi == nil || sub == nil {
		r.undecided("isinstance|anchors", token.NoPos, "builtin_isinstance or (*Type).IsSubtype not found")
		return
	}
	r.analysed("stdlib/builtin.builtin_isinstance")
	// reachability through static calls inside the builtin package
	start := c.SSAFunc(bi)
	target := c.SSAFunc(sub)
	seen := map[*ssa.Function]bool{}
	var reach func(f *ssa.Function) bool
	reach = func(f *ssa.Function) bool {
		if f == nil || seen[f] {
			return false
		}
		seen[f] = true
		for _, b := range f.Blocks {
			for _, in := range b.Instrs {
				if ci, ok := in.(ssa.CallInstruction); ok {
					if cal := ci.Common().StaticCallee(); cal != nil {
						if cal == target {
							return true
						}
						if cal.Pkg == f.Pkg && reach(cal) {
							return true
						}
					}
				}
			}
		}
		return false
	}
	r.check(reach(start), "isinstance|decides through IsSubtype", c.Decl(bi).Pos(),
		"isinstance reaches (*Type).IsSubtype, which walks the MRO",
		"no call path from builtin_isinstance to (*Type).IsSubtype: the answer cannot follow inheritance (an instance of a subclass is an instance of its bases)")
	// and no identity comparison of the object's type decides it
	p := c.MustPkg("stdlib/builtin")
	for fn := range seen {
		obj, ok := fn.Object().(*types.Func)
		if !ok {
			continue
		}
		fd := c.Decl(obj)
		if fd == nil || fd.Body == nil {
			continue
		}
		ast.Inspect(fd.Body, func(n ast.Node) bool {
			be, ok := n.(*ast.BinaryExpr)
			if !ok || be.Op != token.EQL {
				return true
			}
			l, rr := exprStr(be.X), exprStr(be.Y)
			if strings.HasSuffix(l, ".Type()") && !strings.Contains(l, ".Type().") || strings.HasSuffix(rr, ".Type()") && !strings.Contains(rr, ".Type().") {
				// returned as the verdict?
				r.bad("isinstance|identity "+exprStr(be), be.Pos(), "isinstance compares the object's type for identity (`%s`): an instance of a subclass is then not an instance of the base class", exprStr(be))
			}
			return true
		})
	}
	_ = p
}

func runC16Pmerge(c *Ctx, r *Rep) {
	fd := c.FuncDeclX("py", "pmerge")
	if fd == nil || fd.Body == nil {
		r.undecided("c3|py.pmerge", token.NoPos, "anchor function not found")
		return
	}
	r.analysed("py.pmerge")
	// outer loop over the lists, inner loop calling tail_contains
	// the scan loop: the innermost loop whose body (nested loops aside) accepts a candidate — appends to the accumulator
	var outer *ast.ForStmt
	var accept *ast.ExprStmt
	var enclosing []*ast.ForStmt // loops around the scan loop, outermost first
	{
		var stack []*ast.ForStmt
		var visit func(n ast.Node)
		visit = func(n ast.Node) {
			ast.Inspect(n, func(m ast.Node) bool {
				if m == nil || m == n {
					return true
				}
				switch x := m.(type) {
				case *ast.FuncLit:
					return false
				case *ast.ForStmt:
					stack = append(stack, x)
					visit(x.Body)
					stack = stack[:len(stack)-1]
					return false
				case *ast.ExprStmt:
					if call, ok := x.X.(*ast.CallExpr); ok && outer == nil && len(stack) > 0 {
						if sel, ok := call.Fun.(*ast.SelectorExpr); ok && sel.Sel.Name == "Append" {
							outer = stack[len(stack)-1]
							accept = x
							enclosing = append([]*ast.ForStmt(nil), stack[:len(stack)-1]...)
						}
					}
				}
				return true
			})
		}
		visit(fd.Body)
	}
	if outer == nil {
		r.undecided("c3|outer loop", fd.Pos(), "no loop accepting a candidate (appending to the accumulator) found in pmerge")
		return
	}
	var inner *ast.ForStmt
	var innerRange *ast.RangeStmt
	ast.Inspect(outer.Body, func(n ast.Node) bool {
		var body *ast.BlockStmt
		switch f := n.(type) {
		case *ast.ForStmt:
			body = f.Body
		case *ast.RangeStmt:
			body = f.Body
		default:
			return true
		}
		has := false
		ast.Inspect(body, func(m ast.Node) bool {
			if call, ok := m.(*ast.CallExpr); ok && exprStr(call.Fun) == "tail_contains" {
				has = true
			}
			return true
		})
		if has && inner == nil && innerRange == nil {
			switch f := n.(type) {
			case *ast.ForStmt:
				inner = f
			case *ast.RangeStmt:
				innerRange = f
			}
		}
		return true
	})
	if innerRange != nil {
		// a range loop visits every list: nothing to compare
		r.ok("c3|candidate checked against every tail", innerRange.Pos(), "the rejection loop ranges over %s, every list to merge", exprStr(innerRange.X))
	}
	if inner == nil && innerRange == nil {
		r.undecided("c3|tail loop", outer.Pos(), "no inner loop calling tail_contains found; confirm how candidates are rejected and update the rule")
		return
	}
	bound := func(f *ast.ForStmt) (init, limit string) {
		if as, ok := f.Init.(*ast.AssignStmt); ok && len(as.Rhs) == 1 {
			init = exprStr(as.Rhs[0])
		}
		if be, ok := f.Cond.(*ast.BinaryExpr); ok && be.Op == token.LSS {
			limit = exprStr(be.Y)
		}
		return
	}
	oi, ol := bound(outer)
	ii, il := "", ""
	if inner != nil {
		ii, il = bound(inner)
	}
	if inner != nil {
		r.check(ii == "0" && il == ol && oi == "0", "c3|candidate checked against every tail", inner.Pos(),
			"the rejection loop runs over all lists to merge (0 .. "+ol+")",
			fmt.Sprintf("the loop that rejects a candidate found in the tail of a list runs from %s to %s, the lists to merge from %s to %s: C3 takes a candidate only if it is in the tail of NO list, including the ones before the one it heads — otherwise an inconsistent hierarchy is accepted with some order instead of TypeError", ii, il, oi, ol))
	}
	// the candidate is the head of the current list (remain index), and acceptance restarts the scan
	// what ends the acceptance: the statement list that holds the Append, from there on
	restarts := false
	var tail []ast.Stmt
	ast.Inspect(outer.Body, func(n ast.Node) bool {
		var list []ast.Stmt
		switch b := n.(type) {
		case *ast.BlockStmt:
			list = b.List
		case *ast.CaseClause:
			list = b.Body
		}
		for i, st := range list {
			if st == ast.Stmt(accept) {
				tail = list[i+1:]
			}
		}
		return true
	})
	labelPos := map[string]token.Pos{}
	labelOf := map[ast.Stmt]string{}
	ast.Inspect(fd.Body, func(n ast.Node) bool {
		if ls, ok := n.(*ast.LabeledStmt); ok {
			labelPos[ls.Label.Name] = ls.Pos()
			labelOf[ls.Stmt] = ls.Label.Name
		}
		return true
	})
	flags := map[string]bool{} // boolean locals set true while accepting
	for _, st := range tail {
		switch x := st.(type) {
		case *ast.AssignStmt:
			if len(x.Lhs) == 1 && len(x.Rhs) == 1 && exprStr(x.Rhs[0]) == "true" {
				flags[exprStr(x.Lhs[0])] = true
			}
		case *ast.BranchStmt:
			switch {
			case x.Tok == token.GOTO && x.Label != nil && labelPos[x.Label.Name] != token.NoPos && labelPos[x.Label.Name] <= outer.Pos():
				restarts = true // back to a point in front of the scan
			case x.Tok == token.CONTINUE && x.Label != nil:
				for _, e := range enclosing {
					if labelOf[e] == x.Label.Name {
						restarts = true // next round of a loop around the scan: the scan starts over
					}
				}
			case x.Tok == token.BREAK && (x.Label == nil || labelOf[outer] == x.Label.Name) && len(enclosing) > 0:
				// leaves the scan; the loop around it must go round again because something was taken
				enc := enclosing[len(enclosing)-1]
				after := false
				for _, es := range enc.Body.List {
					base := es
					if ls, ok := es.(*ast.LabeledStmt); ok {
						base = ls.Stmt
					}
					if base == ast.Stmt(outer) {
						after = true
						continue
					}
					if !after {
						continue
					}
					if is, ok := es.(*ast.IfStmt); ok && len(is.Body.List) == 1 {
						if bs, ok := is.Body.List[0].(*ast.BranchStmt); ok && bs.Tok == token.CONTINUE && flags[exprStr(is.Cond)] {
							restarts = true
						}
					}
				}
			}
		}
	}
	r.check(restarts, "c3|restart after acceptance", outer.Pos(), "after a candidate is accepted the scan restarts from the first list",
		"after accepting a candidate the scan does not restart from the first list (C3 always prefers the earliest list whose head is acceptable)")
}

func runC16TypeNew(c *Ctx, r *Rep) {
	a := newAliasAn(c)
	fn := c.SSAFunc(c.Func("py", "TypeNew"))
	if fn == nil {
		r.undecided("typenew|py.TypeNew", token.NoPos, "anchor function not found")
		return
	}
	r.analysed("py.TypeNew")
	var shared []string
	for _, rs := range a.ret[fn] {
		for at := range rs {
			if at.fn == fn && mutableKind(at.kind) {
				shared = append(shared, paramName(fn, at.idx)+" as "+at.kind)
			}
		}
	}
	sort.Strings(shared)
	r.check(len(shared) == 0, "typenew|namespace copied", fn.Pos(),
		"the class object returned by TypeNew shares no dictionary with its arguments",
		"the class returned by TypeNew may share storage with "+strings.Join(uniq(shared), ", ")+": type(name, bases, ns) must copy ns — otherwise two classes made from one dict share their attributes and later changes to ns change the class")
}

func runC16Writes(c *Ctx, r *Rep) {
	p := c.MustPkg("py")
	for _, name := range []string{"SetAttrString", "DeleteAttrString"} {
		fd := c.FuncDecl("py", name)
		if fd == nil || fd.Body == nil {
			r.undecided("write|py."+name, token.NoPos, "anchor function not found")
			continue
		}
		r.analysed("py." + name)
		self := fd.Type.Params.List[0].Names[0].Name
		// dict variables obtained from self's own GetDict
		own := map[string]bool{}
		ast.Inspect(fd.Body, func(n ast.Node) bool {
			// I, ok := self.(IGetDict) ; dict := I.GetDict()
			return true
		})
		ifaceVars := map[string]bool{}
		ast.Inspect(fd.Body, func(n ast.Node) bool {
			as, ok := n.(*ast.AssignStmt)
			if !ok || len(as.Rhs) != 1 {
				return true
			}
			id, _ := as.Lhs[0].(*ast.Ident)
			if id == nil {
				return true
			}
			switch x := as.Rhs[0].(type) {
			case *ast.TypeAssertExpr:
				if exprStr(x.X) == self {
					ifaceVars[id.Name] = true
				}
			case *ast.CallExpr:
				if sel, ok := x.Fun.(*ast.SelectorExpr); ok && sel.Sel.Name == "GetDict" && (ifaceVars[exprStr(sel.X)] || exprStr(sel.X) == self) {
					own[id.Name] = true
				}
			}
			return true
		})
		n := 0
		ast.Inspect(fd.Body, func(nd ast.Node) bool {
			var target ast.Expr
			switch x := nd.(type) {
			case *ast.AssignStmt:
				for _, l := range x.Lhs {
					if ie, ok := l.(*ast.IndexExpr); ok {
						if _, isMap := p.TypesInfo.Types[ie.X].Type.Underlying().(*types.Map); isMap {
							target = ie.X
						}
					}
				}
			case *ast.CallExpr:
				if id, ok := x.Fun.(*ast.Ident); ok && id.Name == "delete" && len(x.Args) == 2 {
					target = x.Args[0]
				}
			}
			if target == nil {
				return true
			}
			n++
			r.check(own[exprStr(target)], "write|py."+name+"|"+exprStr(target), target.Pos(),
				"the dictionary written is the one obtained from the object itself",
				fmt.Sprintf("%s writes the dictionary `%s`, which is not the object's own (obtained from %s.GetDict()): an attribute write or delete on one object must not change its class or any other object", name, exprStr(target), self))
			return true
		})
		if n == 0 {
			r.undecided("write|py."+name+"|sites", fd.Pos(), "no dictionary write found")
		}
	}
}

func init() {
	register(&Rule{ID: "C16.R1", Prop: "C16", Floor: 8,
		Doc: "generic attribute read (py.GetAttrString), typed AST: a class is looked up along its own dictionary and MRO and bound with __get__(None, class); the phases come in the order __getattribute__ hook < class path / instance dictionary < type MRO bound with __get__(instance, type) < __getattr__ hook < AttributeError",
		Run: runC16Read})
	register(&Rule{ID: "C16.R3", Prop: "C16", Floor: 1,
		Doc: "isinstance decides through (*Type).IsSubtype (reachability over static calls in go/ssa) and not through an identity comparison of the object's type",
		Run: runC16Isinstance})
	register(&Rule{ID: "C16.R5", Prop: "C16", Floor: 2,
		Doc: "C3 merge (py.pmerge): the loop that rejects a candidate present in the tail of a list ranges over all lists to merge, and acceptance restarts the scan at the first list [typeobject.c pmerge]",
		Run: runC16Pmerge})
	register(&Rule{ID: "C16.R6", Prop: "C16", Floor: 1,
		Doc: "class creation copies the namespace: the object returned by py.TypeNew shares no dictionary storage with its arguments (storage-sharing analysis, alias.go)",
		Run: runC16TypeNew})
	register(&Rule{ID: "C16.R7", Prop: "C16", Floor: 2,
		Doc: "generic attribute write and delete (SetAttrString, DeleteAttrString) modify only the dictionary obtained from the object they are applied to",
		Run: runC16Writes})
}
