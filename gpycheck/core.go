package main

import (
	"fmt"
	"go/ast"
	"go/token"
	"go/types"
	"os"
	"path/filepath"
	"sort"
	"strings"
	"time"

	"golang.org/x/tools/go/callgraph"
	"golang.org/x/tools/go/callgraph/cha"
	"golang.org/x/tools/go/callgraph/vta"
	"golang.org/x/tools/go/packages"
	"golang.org/x/tools/go/ssa"
	"golang.org/x/tools/go/ssa/ssautil"
	"golang.org/x/tools/go/types/typeutil"
)

const modPath = "github.com/go-python/gpython"

// Verdict of one obligation.
type Verdict int

const (
	OK Verdict = iota
	Violation
	Undecided
)

func (v Verdict) String() string {
	switch v {
	case OK:
		return "ok"
	case Violation:
		return "violation"
	}
	return "undecided"
}

// Ob is one obligation: a construct of the code the rule had to decide.
type Ob struct {
	Rule       string  `json:"rule"`
	Key        string  `json:"key"` // rule|pkg|func|construct  (never a line number)
	Pos        string  `json:"pos"`
	Verdict    Verdict `json:"-"`
	V          string  `json:"verdict"`
	Detail     string  `json:"detail,omitempty"`
	Nontrivial bool    `json:"nontrivial,omitempty"`
	Config     string  `json:"config,omitempty"`
	Paths      int     `json:"extra_paths,omitempty"`
}

func baseObKey(k string) string {
	if i := strings.LastIndex(k, " #"); i > 0 {
		tail := k[i+2:]
		allDigits := tail != ""
		for _, c := range tail {
			if c < '0' || c > '9' {
				allDigits = false
			}
		}
		if allDigits {
			return k[:i]
		}
	}
	return k
}

// Rule is one structural rule serving one property.
type Rule struct {
	ID    string // e.g. C01.R1
	Prop  string // e.g. C01
	Doc   string // the clause decided and the rule applied
	Floor int    // minimum number of obligations confirmed by hand
	Run   func(c *Ctx, r *Rep)
	// Thorough-only rules are skipped in the quick tier.
	ThoroughOnly bool
}

var allRules []*Rule

func register(r *Rule) { allRules = append(allRules, r) }

// Rep collects obligations for one rule run.
type Rep struct {
	rule   *Rule
	c      *Ctx
	Obs    []*Ob
	Notes  []string
	seen   map[string]int
	Funcs  map[string]bool // functions analysed
	config string
}

func (r *Rep) analysed(fn string) {
	if r.Funcs == nil {
		r.Funcs = map[string]bool{}
	}
	r.Funcs[fn] = true
}

func (r *Rep) add(v Verdict, key string, pos token.Pos, nontrivial bool, format string, args ...interface{}) *Ob {
	full := r.rule.ID + "|" + key
	if r.seen == nil {
		r.seen = map[string]int{}
	}
	// the same obligation decided the same way on several paths is one obligation
	detail := fmt.Sprintf(format, args...)
	for _, o := range r.Obs {
		// (two violations at different places are two violations, even with the same text: a known finding that names
		// one store must not cover a second store of the same kind in the same function)
		if baseObKey(o.Key) == full && o.Verdict == v && o.Detail == detail && (v == OK || o.Pos == r.c.Pos(pos)) {
			o.Paths++
			return o
		}
	}
	r.seen[full]++
	if n := r.seen[full]; n > 1 {
		full = fmt.Sprintf("%s #%d", full, n)
	}
	o := &Ob{Rule: r.rule.ID, Key: full, Pos: r.c.Pos(pos), Verdict: v, V: v.String(),
		Detail: fmt.Sprintf(format, args...), Nontrivial: nontrivial, Config: r.config}
	r.Obs = append(r.Obs, o)
	return o
}

func (r *Rep) ok(key string, pos token.Pos, format string, args ...interface{}) {
	r.add(OK, key, pos, true, format, args...)
}
func (r *Rep) okTrivial(key string, pos token.Pos, format string, args ...interface{}) {
	r.add(OK, key, pos, false, format, args...)
}
func (r *Rep) bad(key string, pos token.Pos, format string, args ...interface{}) {
	r.add(Violation, key, pos, true, format, args...)
}
func (r *Rep) undecided(key string, pos token.Pos, format string, args ...interface{}) {
	r.add(Undecided, key, pos, true, format, args...)
}
func (r *Rep) check(cond bool, key string, pos token.Pos, okmsg, badmsg string) {
	if cond {
		r.ok(key, pos, "%s", okmsg)
	} else {
		r.bad(key, pos, "%s", badmsg)
	}
}
func (r *Rep) note(format string, args ...interface{}) {
	r.Notes = append(r.Notes, fmt.Sprintf(format, args...))
}

// Ctx is the loaded, type-checked program under one build configuration.
type Ctx struct {
	Repo    string
	Config  string
	Fset    *token.FileSet
	Pkgs    map[string]*packages.Package // by import path
	All     []*packages.Package
	LoadS   float64
	prog    *ssa.Program
	ssaPkgs []*ssa.Package
	cg      *callgraph.Graph
	cgKind  string
	declIdx map[*types.Func]*ast.FuncDecl
	declPkg map[*types.Func]*packages.Package
}

type loadCfg struct {
	Name  string
	Env   []string
	Tests bool
}

func load(repo string, lc loadCfg) (*Ctx, error) {
	t0 := time.Now()
	fset := token.NewFileSet()
	env := append(os.Environ(), "GOFLAGS=-mod=mod", "GOPROXY=off", "GOSUMDB=off", "GOTOOLCHAIN=local", "GOWORK=off")
	env = append(env, lc.Env...)
	cfg := &packages.Config{
		Mode:  packages.LoadAllSyntax,
		Dir:   repo,
		Fset:  fset,
		Env:   env,
		Tests: lc.Tests,
	}
	pkgs, err := packages.Load(cfg, "./...")
	if err != nil {
		return nil, err
	}
	c := &Ctx{Repo: repo, Config: lc.Name, Fset: fset, Pkgs: map[string]*packages.Package{}}
	barrierCtx = c
	var errs []string
	for _, p := range pkgs {
		for _, e := range p.Errors {
			errs = append(errs, e.Error())
		}
		if strings.HasSuffix(p.ID, ".test") {
			continue
		}
		// with Tests, prefer the variant that includes in-package tests ("p [p.test]")
		if old, ok := c.Pkgs[p.PkgPath]; ok {
			if strings.Contains(old.ID, "[") && !strings.Contains(p.ID, "[") {
				continue
			}
		}
		c.Pkgs[p.PkgPath] = p
	}
	if len(errs) > 0 {
		return nil, fmt.Errorf("packages do not type-check under config %s: %s", lc.Name, strings.Join(errs, "; "))
	}
	for _, p := range c.Pkgs {
		c.All = append(c.All, p)
	}
	sort.Slice(c.All, func(i, j int) bool { return c.All[i].PkgPath < c.All[j].PkgPath })
	if len(c.All) == 0 {
		return nil, fmt.Errorf("no packages loaded from %s", repo)
	}
	c.LoadS = time.Since(t0).Seconds()
	return c, nil
}

// Pkg returns a package of the module by its path relative to the module root
// ("" is the root package).
func (c *Ctx) Pkg(rel string) *packages.Package {
	p := modPath
	if rel != "" {
		p += "/" + rel
	}
	return c.Pkgs[p]
}

func (c *Ctx) MustPkg(rel string) *packages.Package {
	p := c.Pkg(rel)
	if p == nil {
		panic(fmt.Sprintf("anchor package %q not found", rel))
	}
	return p
}

// ModulePkgs returns the module's own packages.
func (c *Ctx) ModulePkgs() []*packages.Package {
	var out []*packages.Package
	for _, p := range c.All {
		if p.PkgPath == modPath || strings.HasPrefix(p.PkgPath, modPath+"/") {
			out = append(out, p)
		}
	}
	return out
}

func (c *Ctx) Pos(p token.Pos) string {
	if !p.IsValid() {
		return ""
	}
	pp := c.Fset.Position(p)
	rel, err := filepath.Rel(c.Repo, pp.Filename)
	if err != nil {
		rel = pp.Filename
	}
	return fmt.Sprintf("%s:%d", rel, pp.Line)
}

func isTestFile(c *Ctx, f *ast.File) bool {
	return strings.HasSuffix(c.Fset.Position(f.Pos()).Filename, "_test.go")
}

// Files returns the non-test files of a package.
func (c *Ctx) Files(p *packages.Package) []*ast.File {
	var out []*ast.File
	for _, f := range p.Syntax {
		if !isTestFile(c, f) {
			out = append(out, f)
		}
	}
	return out
}

func (c *Ctx) buildDeclIdx() {
	if c.declIdx != nil {
		return
	}
	c.declIdx = map[*types.Func]*ast.FuncDecl{}
	c.declPkg = map[*types.Func]*packages.Package{}
	for _, p := range c.ModulePkgs() {
		for _, f := range p.Syntax {
			for _, d := range f.Decls {
				if fd, ok := d.(*ast.FuncDecl); ok {
					if fn, ok := p.TypesInfo.Defs[fd.Name].(*types.Func); ok {
						c.declIdx[fn] = fd
						c.declPkg[fn] = p
					}
				}
			}
		}
	}
}

// Decl returns the declaration of a module function, or nil.
func (c *Ctx) Decl(fn *types.Func) *ast.FuncDecl {
	c.buildDeclIdx()
	if fn == nil {
		return nil
	}
	return c.declIdx[fn.Origin()]
}

func (c *Ctx) DeclPkg(fn *types.Func) *packages.Package {
	c.buildDeclIdx()
	if fn == nil {
		return nil
	}
	return c.declPkg[fn.Origin()]
}

// Func looks up a package-level function.
func (c *Ctx) Func(rel, name string) *types.Func {
	p := c.Pkg(rel)
	if p == nil {
		return nil
	}
	fn, _ := p.Types.Scope().Lookup(name).(*types.Func)
	return fn
}

// Method looks up a method (pointer or value receiver) of a named type.
func (c *Ctx) Method(rel, typ, name string) *types.Func {
	p := c.Pkg(rel)
	if p == nil {
		return nil
	}
	tn, _ := p.Types.Scope().Lookup(typ).(*types.TypeName)
	if tn == nil {
		return nil
	}
	named, _ := tn.Type().(*types.Named)
	if named == nil {
		return nil
	}
	for i := 0; i < named.NumMethods(); i++ {
		if m := named.Method(i); m.Name() == name {
			return m
		}
	}
	return nil
}

func (c *Ctx) FuncDecl(rel, name string) *ast.FuncDecl { return c.Decl(c.Func(rel, name)) }

// FuncDeclX / MethodDeclX: the declaration with the helpers extracted from it put back (expand.go), for
// rules that look for constructs inside one function.
func (c *Ctx) FuncDeclX(rel, name string) *ast.FuncDecl {
	return c.Expand(c.Pkg(rel), c.FuncDecl(rel, name))
}
func (c *Ctx) MethodDeclX(rel, typ, name string) *ast.FuncDecl {
	return c.Expand(c.Pkg(rel), c.MethodDecl(rel, typ, name))
}
func (c *Ctx) MethodDecl(rel, typ, name string) *ast.FuncDecl {
	return c.Decl(c.Method(rel, typ, name))
}

// Named returns a named type of a package.
func (c *Ctx) Named(rel, name string) *types.Named {
	p := c.Pkg(rel)
	if p == nil {
		return nil
	}
	tn, _ := p.Types.Scope().Lookup(name).(*types.TypeName)
	if tn == nil {
		return nil
	}
	n, _ := tn.Type().(*types.Named)
	return n
}

// Const returns the constant value of a package-level constant.
func (c *Ctx) ConstObj(rel, name string) *types.Const {
	p := c.Pkg(rel)
	if p == nil {
		return nil
	}
	k, _ := p.Types.Scope().Lookup(name).(*types.Const)
	return k
}

// Callee resolves the static callee of a call through type information.
func Callee(info *types.Info, call *ast.CallExpr) *types.Func {
	if f, ok := typeutil.Callee(info, call).(*types.Func); ok {
		return f
	}
	return nil
}

// FuncID gives a stable readable id: pkg.Func or (pkg.T).Meth / (*pkg.T).Meth.
func FuncID(fn *types.Func) string {
	if fn == nil {
		return "<nil>"
	}
	sig, _ := fn.Type().(*types.Signature)
	pk := ""
	if fn.Pkg() != nil {
		pk = shortPkg(fn.Pkg().Path())
	}
	if sig != nil && sig.Recv() != nil {
		t := sig.Recv().Type()
		ptr := ""
		if p, ok := t.(*types.Pointer); ok {
			t = p.Elem()
			ptr = "*"
		}
		name := t.String()
		if n, ok := t.(*types.Named); ok {
			name = n.Obj().Name()
		}
		return fmt.Sprintf("(%s%s.%s).%s", ptr, pk, name, fn.Name())
	}
	return pk + "." + fn.Name()
}

func shortPkg(path string) string {
	if path == modPath {
		return "gpython"
	}
	if strings.HasPrefix(path, modPath+"/") {
		return strings.TrimPrefix(path, modPath+"/")
	}
	return path
}

// declID gives the id of a declaration in a package.
func declID(p *packages.Package, fd *ast.FuncDecl) string {
	if fn, ok := p.TypesInfo.Defs[fd.Name].(*types.Func); ok {
		return FuncID(fn)
	}
	return fd.Name.Name
}

// ---- SSA / call graph (lazy) ----

func (c *Ctx) SSA() *ssa.Program {
	if c.prog != nil {
		return c.prog
	}
	prog, pkgs := ssautil.AllPackages(c.All, ssa.InstantiateGenerics)
	prog.Build()
	c.prog = prog
	c.ssaPkgs = pkgs
	return prog
}

func (c *Ctx) SSAPkg(rel string) *ssa.Package {
	c.SSA()
	p := c.Pkg(rel)
	if p == nil {
		return nil
	}
	return c.prog.Package(p.Types)
}

func (c *Ctx) SSAFunc(fn *types.Func) *ssa.Function {
	c.SSA()
	if fn == nil {
		return nil
	}
	return c.prog.FuncValue(fn)
}

// CallGraph returns the VTA call graph (seeded with CHA).
func (c *Ctx) CallGraph() *callgraph.Graph {
	if c.cg != nil {
		return c.cg
	}
	prog := c.SSA()
	c.cg = vta.CallGraph(ssautil.AllFunctions(prog), cha.CallGraph(prog))
	c.cgKind = "vta(cha)"
	return c.cg
}

// ---- small AST helpers ----

func unparen(e ast.Expr) ast.Expr {
	for {
		p, ok := e.(*ast.ParenExpr)
		if !ok {
			return e
		}
		e = p.X
	}
}

func exprStr(e ast.Expr) string { return types.ExprString(e) }

// inModule reports whether the function belongs to the gpython module.
func inModule(fn *types.Func) bool {
	if fn == nil || fn.Pkg() == nil {
		return false
	}
	p := fn.Pkg().Path()
	return p == modPath || strings.HasPrefix(p, modPath+"/")
}

// isPanicCall reports whether the call is to the panic builtin.
func isBuiltinCall(info *types.Info, call *ast.CallExpr, name string) bool {
	id, ok := unparen(call.Fun).(*ast.Ident)
	if !ok || id.Name != name {
		return false
	}
	_, isB := info.Uses[id].(*types.Builtin)
	return isB
}

// constInt returns the constant integer value of an expression, if it has one.
func constInt(info *types.Info, e ast.Expr) (int64, bool) {
	tv, ok := info.Types[e]
	if !ok || tv.Value == nil {
		return 0, false
	}
	return constToInt(tv)
}
