package main

import (
	"fmt"
	"go/ast"
	"go/token"
	"regexp"
	"sort"
	"strings"
)

// Rules over the compiler's emission traces.

// armOwner says which property an arm's code scheme serves.
var armOwner = map[string]string{}

// armAlso lists further properties an arm's scheme is checked under.
var armAlso = map[string][]string{}

func alsoOwns(arm, prop string) bool {
	for _, p := range armAlso[arm] {
		if p == prop {
			return true
		}
	}
	return false
}

func init() {
	for _, a := range []string{"BoolOp", "BinOp", "UnaryOp", "IfExp", "Dict", "Set", "Compare", "Attribute", "Subscript", "Starred", "Name", "List", "Tuple",
		"Num", "Str", "Bytes", "NameConstant", "Ellipsis", "Assign", "AugAssign", "Delete", "ListComp", "SetComp", "DictComp", "GeneratorExp", "Yield", "YieldFrom"} {
		armOwner["*ast."+a] = "C01"
	}
	for _, a := range []string{"For", "While", "If", "With", "Raise", "Try", "Assert", "Return", "Break", "Continue", "Pass", "Global", "Nonlocal"} {
		armOwner["*ast."+a] = "C02"
	}
	for _, a := range []string{"Call", "FunctionDef", "Lambda", "ClassDef"} {
		armOwner["*ast."+a] = "C04"
	}
	for _, a := range []string{"Import", "ImportFrom"} {
		armOwner["*ast."+a] = "C19"
	}
	armOwner["*ast.ExprStmt"] = "C20"
	// forms that build a closure also serve C03: the cells handed to the new function are numbered by the parent's
	// cell and free variable lists (C03.R11)
	for _, a := range []string{"FunctionDef", "Lambda", "ClassDef", "ListComp", "SetComp", "DictComp", "GeneratorExp"} {
		armAlso["*ast."+a] = append(armAlso["*ast."+a], "C03")
	}

	// a call's operands and a lambda's defaults are sub-expressions whose evaluation order C01 states
	for _, a := range []string{"Call", "Lambda"} {
		armAlso["*ast."+a] = append(armAlso["*ast."+a], "C01")
	}
	// forms whose scheme includes a rejection (SyntaxError for a misplaced statement): which inputs are rejected, and
	// that the others get code, is C11's business too
	for _, a := range []string{"Break", "Continue", "Return", "Yield", "YieldFrom", "Starred", "Global", "Nonlocal"} {
		armAlso["*ast."+a] = append(armAlso["*ast."+a], "C11")
	}

	// forms that build a closure look each free variable of the child up in the parent's cell and free lists and end in
	// an internal failure (SystemError, not SyntaxError) when the lookup is not where the symbol table said: for which
	// scopes the lookup is made, and under which condition it fails, is C11's business as well
	for _, a := range []string{"FunctionDef", "Lambda", "ClassDef", "ListComp", "SetComp", "DictComp", "GeneratorExp"} {
		armAlso["*ast."+a] = append(armAlso["*ast."+a], "C11")
	}

	reg := func(id, prop, doc string, floor int) {
		register(&Rule{ID: id, Prop: prop, Floor: floor, Doc: doc, Run: func(c *Ctx, r *Rep) { runEmitSpec(c, r, prop) }})
	}
	const how = " — decided by interpreting the compiler's own code symbolically per AST node form (helpers inlined, loops as structured events) and comparing every non-panicking path's emission trace (operands in order, each exactly once, opcodes, jumps and label placement) with the reviewed reference scheme (Language Reference evaluation order / CPython 3.4 compile.c)"
	reg("C01.R4", "C01", "emission order and exactly-once for expression, assignment, augmented-assignment, display and comprehension forms"+how, 25)
	reg("C02.R2", "C02", "statement code schemes: loops with else, if, try/except/else/finally (SETUP/POP_BLOCK/POP_EXCEPT/END_FINALLY placement, `except … as name` cleanup), with, break/continue (JUMP_ABSOLUTE vs CONTINUE_LOOP vs SyntaxError by enclosing construct), raise, assert, return"+how, 12)
	reg("C04.R2", "C04", "call-site and function-object operand protocol: callee, positionals, (name, value) keyword pairs, *args, **kwargs, opcode by star-forms, packed argc; decorators first, then defaults, kw-defaults, annotations, names tuple, closure, code, qualname, MAKE_FUNCTION/MAKE_CLOSURE, decorator calls"+how, 4)
	reg("C19.R5", "C19", "import code schemes: one IMPORT_NAME per alias/module with (level, fromlist) constants, IMPORT_FROM + store per name, final POP_TOP, IMPORT_STAR; dotted `import a.b` binds a, `import a.b as c` walks attributes"+how, 2)
	reg("C20.R2", "C20", "echo protocol (compiler half): PRINT_EXPR only for expression statements of the interactive top level (interactive && depth<=1), POP_TOP otherwise, nothing for constant expression statements"+how, 1)
	reg("C03.R11", "C03", "closure construction: the forms that make a function object from a code object with free variables load one cell per free variable of the child, numbered by the parent's own cell and free variable lists, then the code, the qualified name and MAKE_CLOSURE"+how, 5)
	reg("C11.R15", "C11", "statement and expression forms whose compilation can reject the program (break/continue outside a loop or under finally, return/yield outside a function, misplaced starred expression, global/nonlocal conflicts; and the closure-building forms, whose free-variable lookup ends in an internal failure for a scope class it does not expect): every path either emits the reviewed scheme or raises the reviewed SyntaxError — none ends in an internal failure"+how, 3)
	reg("C12.R8", "C12", "scope prologues and epilogues (compileAst per scope kind): module and class bodies go through docString, the interactive top level does not; class bodies store __module__/__qualname__ first and return the __class__ cell when needed; comprehensions load their iterator argument, build the result and return it; every scope ends in RETURN_VALUE exactly once (implicit `return None` only when the stream does not already end in one)"+how, 8)
	register(&Rule{ID: "C12.R5", Prop: "C12", Floor: 40,
		Doc: "block and loop-stack balance in the emitter: on every non-panicking path of every node form, c.loops.Push/Pop are balanced (also inside each loop iteration) and every SETUP_LOOP/EXCEPT/FINALLY/WITH emission is matched by exactly one POP_BLOCK",
		Run: runEmitBalance})
	register(&Rule{ID: "C12.R6", Prop: "C12", Floor: 40,
		Doc: "label typestate: every label a node form creates is placed exactly once on every non-panicking path (never inside a deeper loop iteration than its uses, never twice), and every jump targets a label of the same form or one taken from the loop stack",
		Run: runEmitLabels})
}

type armTraces struct {
	method string
	arm    string
	pos    token.Pos
	paths  []string
	raw    []emitPath
	und    []string
}

var emitCache = map[*Ctx][]armTraces{}

// allArmTraces interprets Expr, Stmt and compileAst.
func allArmTraces(c *Ctx) ([]armTraces, error) {
	if v, ok := emitCache[c]; ok {
		return v, nil
	}
	e := newEmitEngine(c)
	var out []armTraces
	for _, m := range []string{"Expr", "Stmt", "compileAst"} {
		arms, err := e.arms(m, "node")
		if err != nil {
			return nil, err
		}
		var keys []string
		for k := range arms {
			keys = append(keys, k)
		}
		sort.Strings(keys)
		armPos := armPositions(c, m)
		for _, k := range keys {
			at := armTraces{method: m, arm: k, raw: arms[k], pos: armPos[k]}
			for _, p := range arms[k] {
				at.paths = append(at.paths, pathString(p))
				at.und = append(at.und, p.und...)
			}
			sort.Strings(at.paths)
			out = append(out, at)
		}
	}
	emitCache[c] = out
	return out, nil
}

// armPositions maps the node type of each clause of the method's outer type switch to its position.
func armPositions(c *Ctx, method string) map[string]token.Pos {
	out := map[string]token.Pos{}
	fd := c.MethodDecl("compile", "compiler", method)
	if fd == nil {
		return out
	}
	p := c.MustPkg("compile")
	for _, st := range fd.Body.List {
		ts, ok := st.(*ast.TypeSwitchStmt)
		if !ok {
			continue
		}
		for _, cl := range ts.Body.List {
			cc := cl.(*ast.CaseClause)
			for _, e := range cc.List {
				if tv, ok := p.TypesInfo.Types[e]; ok {
					out[namedTypeName(tv.Type)] = cc.Pos()
				}
			}
		}
	}
	return out
}

func runEmitSpec(c *Ctx, r *Rep, prop string) {
	arms, err := allArmTraces(c)
	if err != nil {
		r.undecided("compile|emission engine", token.NoPos, "%v", err)
		return
	}
	seen := map[string]bool{}
	for _, a := range arms {
		owner := armOwner[a.arm]
		if a.method == "compileAst" {
			// scope prologues/epilogues: the interactive top level belongs to the echo protocol, the others to C12.R8
			owner = "C12"
			if a.arm == "*ast.Interactive" {
				owner = "C20"
			}
		}
		if owner == "" && a.arm != "default" && a.arm != "" {
			if prop == "C01" { // an arm nobody owns is reported once
				r.undecided("compile|"+a.method+"|arm "+a.arm, token.NoPos, "node form %s has no reference scheme: new syntax needs a spec row", a.arm)
			}
			continue
		}
		if owner != prop && !(a.method != "compileAst" && alsoOwns(a.arm, prop)) {
			continue
		}
		key := fmt.Sprintf("compile|%s|%s", a.method, a.arm)
		seen[a.method+"|"+a.arm] = true
		r.analysed("(*compile.compiler)." + a.method)
		if len(a.und) > 0 {
			r.undecided(key, a.pos, "arm not interpretable: %s", strings.Join(uniq(a.und), "; "))
			continue
		}
		want, ok := emitSpec[a.method+"|"+a.arm]
		if !ok {
			r.undecided(key, a.pos, "no reference scheme recorded for this node form")
			continue
		}
		missing, extra := diffSets(want, a.paths)
		if len(missing) == 0 && len(extra) == 0 {
			r.ok(key, a.pos, "%d paths match the reference scheme", len(a.paths))
			continue
		}
		r.bad(key, a.pos, "emission scheme of %s differs from the reference: %s", a.arm, explainDiff(missing, extra))
	}
	// every spec'd arm of this property must still exist
	for k := range emitSpec {
		parts := strings.SplitN(k, "|", 2)
		own := armOwner[parts[1]]
		if parts[0] == "compileAst" {
			own = "C12"
			if parts[1] == "*ast.Interactive" {
				own = "C20"
			}
		}
		if own == prop && !seen[k] {
			r.bad("compile|"+k, token.NoPos, "node form %s is no longer compiled by %s (no non-panicking path)", parts[1], parts[0])
		}
	}
}

func diffSets(want, got []string) (missing, extra []string) {
	w := map[string]bool{}
	g := map[string]bool{}
	for _, s := range want {
		w[s] = true
	}
	for _, s := range got {
		g[s] = true
	}
	for _, s := range want {
		if !g[s] {
			missing = append(missing, s)
		}
	}
	for _, s := range got {
		if !w[s] {
			extra = append(extra, s)
		}
	}
	return
}

// explainDiff pairs the closest expected/actual path and shows the first point of divergence.
func explainDiff(missing, extra []string) string {
	clipS := func(s string) string {
		if len(s) > 420 {
			return s[:420] + "…"
		}
		return s
	}
	if len(missing) > 0 && len(extra) > 0 {
		// best pair by common prefix
		bi, bj, best := 0, 0, -1
		for i, m := range missing {
			for j, e := range extra {
				n := commonPrefix(m, e)
				if n > best {
					bi, bj, best = i, j, n
				}
			}
		}
		m, e := missing[bi], extra[bj]
		start := best - 60
		if start < 0 {
			start = 0
		}
		return fmt.Sprintf("%d expected path(s) missing, %d unexpected; first divergence — expected …%s — got …%s", len(missing), len(extra), clipS(m[start:]), clipS(e[start:]))
	}
	if len(missing) > 0 {
		return fmt.Sprintf("%d expected path(s) no longer produced, e.g. %s", len(missing), clipS(missing[0]))
	}
	return fmt.Sprintf("%d path(s) not in the reference, e.g. %s", len(extra), clipS(extra[0]))
}

func commonPrefix(a, b string) int {
	n := 0
	for n < len(a) && n < len(b) && a[n] == b[n] {
		n++
	}
	return n
}

// ---- generic invariants ----

var setupRe = regexp.MustCompile(`^SETUP_(LOOP|EXCEPT|FINALLY|WITH)$`)

func balanceOf(evs []emitEvent, where string, problems *[]string) {
	push, pop, setup, popblock := 0, 0, 0, 0
	for _, ev := range evs {
		switch {
		case ev.kind == "loops.Push":
			push++
		case ev.kind == "loops.Pop":
			pop++
			if pop > push {
				*problems = append(*problems, where+": c.loops.Pop before the matching Push")
			}
		case ev.kind == "Jump" && len(ev.args) > 0 && setupRe.MatchString(ev.args[0]):
			setup++
		case ev.kind == "Op" && len(ev.args) > 0 && ev.args[0] == "POP_BLOCK":
			popblock++
		case ev.kind == "Loop":
			for _, a := range ev.loop {
				if a.exit != "" {
					continue
				}
				balanceOf(a.events, where+" / loop iteration ["+strings.Join(a.conds, " && ")+"]", problems)
			}
		}
	}
	if push != pop {
		*problems = append(*problems, fmt.Sprintf("%s: %d c.loops.Push vs %d c.loops.Pop (the loop/try context leaks into, or is dropped before, the code that follows)", where, push, pop))
	}
	if setup != popblock {
		*problems = append(*problems, fmt.Sprintf("%s: %d SETUP_* block emissions vs %d POP_BLOCK", where, setup, popblock))
	}
}

// liveCheck walks a path keeping the open run-time blocks (SETUP_* not yet closed by POP_BLOCK) and the live
// compile-time loop-stack entries, and checks at every point where user statements are compiled (Stmts) that
//
//	(a) every live loopLoop entry has its SETUP_LOOP block open (else `continue`/`break` in those statements is
//	    compiled against a loop whose block is already gone), and
//	(b) while a try/with block is open there is a live non-loop entry (else `continue` is compiled as a plain
//	    jump out of the open block).
func liveCheck(evs []emitEvent, blocks []string, entries []string, where string, problems *[]string) ([]string, []string) {
	count := func(xs []string, pred func(string) bool) int {
		n := 0
		for _, x := range xs {
			if pred(x) {
				n++
			}
		}
		return n
	}
	for _, ev := range evs {
		switch {
		case ev.kind == "Jump" && len(ev.args) > 0 && setupRe.MatchString(ev.args[0]):
			blocks = append(append([]string{}, blocks...), strings.TrimPrefix(ev.args[0], "SETUP_"))
		case ev.kind == "Op" && len(ev.args) > 0 && ev.args[0] == "POP_BLOCK":
			if len(blocks) > 0 {
				blocks = blocks[:len(blocks)-1]
			}
		case ev.kind == "loops.Push":
			t := "?"
			if len(ev.args) > 0 {
				a := strings.TrimSuffix(strings.TrimPrefix(ev.args[0], "composite["), "]")
				parts := strings.Split(a, ",")
				t = parts[len(parts)-1]
			}
			entries = append(append([]string{}, entries...), t)
		case ev.kind == "loops.Pop":
			if len(entries) > 0 {
				entries = entries[:len(entries)-1]
			}
		case ev.kind == "Stmts" || ev.kind == "Stmt":
			loops := count(entries, func(s string) bool { return s == "0" })
			openLoops := count(blocks, func(s string) bool { return s == "LOOP" })
			if loops > openLoops {
				*problems = append(*problems, fmt.Sprintf("%s: %s is compiled while a loop's entry is still on c.loops although its SETUP_LOOP block has already been closed by POP_BLOCK: a `continue`/`break` there is compiled against the finished loop (JUMP_ABSOLUTE into a loop with no block)", where, ev.kind+"("+strings.Join(ev.args, ",")+")"))
			}
			openTry := count(blocks, func(s string) bool { return s != "LOOP" })
			guards := count(entries, func(s string) bool { return s != "0" })
			if openTry > 0 && guards == 0 {
				*problems = append(*problems, fmt.Sprintf("%s: %s is compiled inside an open try/with block with no try/finally entry on c.loops: a `continue` there is compiled as a plain JUMP_ABSOLUTE that leaves the block on the block stack", where, ev.kind+"("+strings.Join(ev.args, ",")+")"))
			}
		case ev.kind == "Loop":
			for _, a := range ev.loop {
				liveCheck(a.events, blocks, entries, where+" / loop iteration ["+strings.Join(a.conds, " && ")+"]", problems)
			}
		}
	}
	return blocks, entries
}

func runEmitBalance(c *Ctx, r *Rep) {
	arms, err := allArmTraces(c)
	if err != nil {
		r.undecided("compile|emission engine", token.NoPos, "%v", err)
		return
	}
	for _, a := range arms {
		key := fmt.Sprintf("compile|%s|%s", a.method, a.arm)
		if len(a.und) > 0 {
			r.undecided(key, a.pos, "arm not interpretable: %s", strings.Join(uniq(a.und), "; "))
			continue
		}
		var problems []string
		for _, p := range a.raw {
			// a recursive helper call (with → with) carries its own balanced pair
			balanceOf(p.events, "path ["+strings.Join(p.conds, " && ")+"]", &problems)
			liveCheck(p.events, nil, nil, "path ["+strings.Join(p.conds, " && ")+"]", &problems)
		}
		if len(problems) > 0 {
			r.bad(key, a.pos, "%s", strings.Join(clip(uniq(problems), 3), " | "))
		} else {
			r.add(OK, key, a.pos, len(a.raw) > 1, "%d paths balanced", len(a.raw))
		}
	}
}

var labelRe = regexp.MustCompile(`\bL[0-9]+\b`)

// labelOcc is one occurrence of a label: loop = the chain of enclosing loops, alt = chain incl. the alternative taken.
type labelOcc struct{ loop, alt string }

func collectLabels(evs []emitEvent, loop, alt string, placed, used map[string][]labelOcc, n *int) {
	for _, ev := range evs {
		switch ev.kind {
		case "Label", "NewLabel":
			for _, a := range ev.args {
				for _, l := range labelRe.FindAllString(a, -1) {
					placed[l] = append(placed[l], labelOcc{loop, alt})
				}
			}
		case "Loop":
			*n++
			id := fmt.Sprintf("%s/loop%d", loop, *n)
			for i, a := range ev.loop {
				collectLabels(a.events, id, fmt.Sprintf("%s/loop%d.%d", alt, *n, i), placed, used, n)
			}
		default:
			for _, a := range ev.args {
				for _, l := range labelRe.FindAllString(a, -1) {
					used[l] = append(used[l], labelOcc{loop, alt})
				}
			}
		}
	}
}

func runEmitLabels(c *Ctx, r *Rep) {
	arms, err := allArmTraces(c)
	if err != nil {
		r.undecided("compile|emission engine", token.NoPos, "%v", err)
		return
	}
	for _, a := range arms {
		key := fmt.Sprintf("compile|%s|%s", a.method, a.arm)
		if len(a.und) > 0 {
			continue // reported by C12.R5
		}
		var problems []string
		nlabels := 0
		placedAnywhere := map[string]bool{}
		type miss struct {
			where, l string
			top      bool
		}
		var misses []miss
		for _, p := range a.raw {
			placed := map[string][]labelOcc{}
			used := map[string][]labelOcc{}
			n := 0
			collectLabels(p.events, "", "", placed, used, &n)
			where := "path [" + strings.Join(p.conds, " && ") + "]"
			all := map[string]bool{}
			for l := range placed {
				all[l] = true
				placedAnywhere[l] = true
			}
			for l := range used {
				all[l] = true
			}
			for l := range all {
				nlabels++
				pl := placed[l]
				if len(pl) == 0 {
					top := false
					for _, u := range used[l] {
						if u.loop == "" {
							top = true
						}
					}
					misses = append(misses, miss{where, l, top})
					continue
				}
				// at most one placement per alternative chain
				seenAlt := map[string]bool{}
				for _, d := range pl {
					if seenAlt[d.alt] {
						problems = append(problems, fmt.Sprintf("%s: label %s is placed twice on one path", where, l))
					}
					seenAlt[d.alt] = true
				}
				// a label placed inside a loop must not be referenced from outside that loop
				for _, d := range pl {
					for _, u := range used[l] {
						if !strings.HasPrefix(u.loop, d.loop) {
							problems = append(problems, fmt.Sprintf("%s: label %s is placed inside a loop iteration (once per iteration) but used outside it", where, l))
						}
					}
					// and a label used at an outer level must not be placed in a deeper loop (placed once per iteration)
					for _, u := range used[l] {
						if len(u.loop) < len(d.loop) {
							problems = append(problems, fmt.Sprintf("%s: label %s is used outside the loop in which it is placed once per iteration", where, l))
						}
					}
				}
			}
		}
		for _, m := range misses {
			// never placed on any path, or used at the top level of a path that does not place it
			if !placedAnywhere[m.l] || m.top {
				problems = append(problems, fmt.Sprintf("%s: label %s is a jump target but is never placed in the instruction stream (the jump resolves to address 0)", m.where, m.l))
			}
		}
		if len(problems) > 0 {
			r.bad(key, a.pos, "%s", strings.Join(clip(uniq(problems), 3), " | "))
		} else {
			r.add(OK, key, a.pos, nlabels > 0, "%d label uses consistent", nlabels)
		}
	}
}
