package main

import (
	"fmt"
	"go/ast"
	"go/constant"
	"go/token"
	"go/types"
	"sort"
	"strings"
)

// C04 structural rules beyond the emission traces (DESIGN.md §4 C04):
//   R5  call-site grammar: an arglist action that extends the call node built by an earlier part of the argument
//       list appends to Args/Keywords, it never overwrites them (no argument written in the source is dropped)
//   R3  each binder keeps its raise sites: EvalCode, ParseTupleAndKeywords, UnpackTuple, Vm.Call and Method.Call
//       raise TypeError for duplicate, unexpected, missing and surplus arguments (census of ExceptionNewf(TypeError)
//       sites by message class) — a necessary condition for "TypeError precisely when Python raises it"
//   R4  EvalCode matches a keyword argument against the first Argcount+Kwonlyargcount variable names only

func runC04R2(c *Ctx, r *Rep) {
	g := loadGrammar(c, r)
	if g == nil {
		return
	}
	n := 0
	for _, lhs := range []string{"arglist", "arguments", "arguments2", "optional_arguments"} {
		for i, a := range g.altsOf(lhs) {
			if a.body == nil {
				continue
			}
			// variables holding a call node that came from an earlier symbol: `call := D1` / `call := D1.(*ast.Call)` or VAL = D1
			carried := map[string]bool{}
			ast.Inspect(a.body, func(nd ast.Node) bool {
				as, ok := nd.(*ast.AssignStmt)
				if !ok || len(as.Lhs) != 1 || len(as.Rhs) != 1 {
					return true
				}
				rhs := exprStr(as.Rhs[0])
				if id, ok := as.Lhs[0].(*ast.Ident); ok && (strings.HasPrefix(rhs, "D1") || strings.HasPrefix(rhs, "D2")) && !strings.Contains(rhs, ".") {
					carried[id.Name] = true
				}
				return true
			})
			if len(carried) == 0 {
				continue
			}
			ast.Inspect(a.body, func(nd ast.Node) bool {
				as, ok := nd.(*ast.AssignStmt)
				if !ok || len(as.Lhs) != 1 || len(as.Rhs) != 1 {
					return true
				}
				sel, ok := as.Lhs[0].(*ast.SelectorExpr)
				if !ok || !carried[exprStr(sel.X)] || (sel.Sel.Name != "Args" && sel.Sel.Name != "Keywords") {
					return true
				}
				n++
				key := fmt.Sprintf("grammar|%s alt %d (%s)|%s.%s", lhs, i+1, symsString(a), exprStr(sel.X), sel.Sel.Name)
				call, isCall := as.Rhs[0].(*ast.CallExpr)
				okAppend := isCall && exprStr(call.Fun) == "append" && len(call.Args) >= 1 && exprStr(call.Args[0]) == exprStr(as.Lhs[0])
				if okAppend {
					r.ok(key, token.NoPos, "extended with append(%s, …)", exprStr(as.Lhs[0]))
				} else {
					r.bad(key, token.NoPos, "parser/grammar.y:%d: the action assigns %s = %s: the call node already carries the arguments written before this point (it comes from %s), so they are dropped from the AST instead of being extended — f(a=1, *t, b=2) loses a", a.line, exprStr(as.Lhs[0]), fullExpr(as.Rhs[0]), "$1")
				}
				return true
			})
		}
	}
	if n == 0 {
		r.undecided("grammar|arglist", token.NoPos, "no action extending a carried call node found in the arglist productions")
	}
	// keyword-only defaults stay aligned with the keyword-only arguments: the list nonterminal that feeds
	// Arguments.Kwonlyargs / KwDefaults appends one default (possibly nil) per argument, unconditionally
	kwLists := map[string]bool{}
	for _, lhs := range []string{"typedargslist", "varargslist"} {
		for _, a := range g.altsOf(lhs) {
			if a.body == nil {
				continue
			}
			ast.Inspect(a.body, func(nd ast.Node) bool {
				kv, ok := nd.(*ast.KeyValueExpr)
				if !ok || exprStr(kv.Key) != "Kwonlyargs" {
					return true
				}
				v := exprStr(kv.Value) // Dk
				if strings.HasPrefix(v, "D") {
					var k int
					if _, err := fmt.Sscanf(v, "D%d", &k); err == nil && k >= 1 && k <= len(a.syms) {
						kwLists[a.syms[k-1]] = true
					}
				}
				return true
			})
		}
	}
	if len(kwLists) == 0 {
		r.undecided("grammar|kwonly lists", token.NoPos, "no production feeding Arguments.Kwonlyargs found")
		return
	}
	var names []string
	for k := range kwLists {
		names = append(names, k)
	}
	sort.Strings(names)
	for _, nt := range names {
		for i, a := range g.altsOf(nt) {
			if a.body == nil || len(a.syms) == 0 {
				continue
			}
			appendsArg, appendsDefault, conditional := false, false, false
			for _, st := range a.body.List {
				switch x := st.(type) {
				case *ast.AssignStmt:
					if len(x.Lhs) == 1 && len(x.Rhs) == 1 {
						if exprStr(x.Lhs[0]) == "VAL" && strings.HasPrefix(exprStr(x.Rhs[0]), "append(VAL,") {
							appendsArg = true
						}
						if exprStr(x.Lhs[0]) == "VAL_exprs" && strings.HasPrefix(exprStr(x.Rhs[0]), "append(VAL_exprs,") {
							appendsDefault = true
						}
					}
				case *ast.IfStmt:
					ast.Inspect(x, func(m ast.Node) bool {
						if as, ok := m.(*ast.AssignStmt); ok && len(as.Lhs) == 1 && exprStr(as.Lhs[0]) == "VAL_exprs" {
							conditional = true
						}
						return true
					})
				}
			}
			if !appendsArg {
				continue
			}
			key := fmt.Sprintf("grammar|%s alt %d (%s)|defaults aligned", nt, i+1, symsString(a))
			if appendsDefault && !conditional {
				r.ok(key, token.NoPos, "one default entry (nil when absent) is appended per keyword-only argument")
			} else {
				r.bad(key, token.NoPos, "parser/grammar.y:%d: the keyword-only argument is appended but its default only when present: Arguments.KwDefaults then has fewer entries than Kwonlyargs and the compiler pairs defaults with the wrong names (def f(*, a, b=1) gives a the default 1 and b none)", a.line)
			}
		}
	}
}

type raiseClass struct {
	fn      [3]string // rel, recv, name
	phrases []string
}

var binderRaises = []raiseClass{
	{[3]string{"vm", "", "EvalCode"}, []string{"got multiple values for argument", "got an unexpected keyword argument"}},
	{[3]string{"vm", "", "formatMissing"}, []string{"missing %d required"}},
	{[3]string{"vm", "", "tooManyPositional"}, []string{"positional argument"}},
	{[3]string{"vm", "Vm", "Call"}, []string{"got multiple values for keyword argument"}},
	{[3]string{"py", "", "ParseTupleAndKeywords"}, []string{"got multiple values for argument", "got an unexpected keyword argument", "keyword only"}},
	{[3]string{"py", "", "checkNumberOfArgs"}, []string{"takes exactly", "takes at most", "takes at least"}},
	{[3]string{"py", "", "UnpackTuple"}, []string{"does not take keyword arguments"}},
	{[3]string{"py", "Method", "Call"}, []string{"takes no arguments", "takes exactly 1 argument"}},
}

func runC04R3(c *Ctx, r *Rep) {
	for _, rc := range binderRaises {
		var fd *ast.FuncDecl
		id := rc.fn[0] + "." + rc.fn[2]
		if rc.fn[1] == "" {
			fd = c.FuncDecl(rc.fn[0], rc.fn[2])
		} else {
			fd = c.MethodDecl(rc.fn[0], rc.fn[1], rc.fn[2])
			id = rc.fn[0] + "." + rc.fn[1] + "." + rc.fn[2]
		}
		if fd == nil || fd.Body == nil {
			r.undecided("raises|"+id, token.NoPos, "binder function not found; confirm where arguments are bound and update the rule")
			continue
		}
		r.analysed(id)
		p := c.MustPkg(rc.fn[0])
		fd = c.Expand(p, fd) // raise sites moved into helpers of the binder belong to it
		// string constants reaching ExceptionNewf(TypeError, fmt, …) in this function (directly or through a local const)
		var msgs []string
		ast.Inspect(fd.Body, func(n ast.Node) bool {
			call, ok := n.(*ast.CallExpr)
			if !ok || len(call.Args) < 2 {
				return true
			}
			fn := Callee(p.TypesInfo, call)
			if fn == nil || fn.Name() != "ExceptionNewf" || !strings.HasSuffix(exprStr(call.Args[0]), "TypeError") {
				return true
			}
			if tv, ok := p.TypesInfo.Types[call.Args[1]]; ok && tv.Value != nil && tv.Value.Kind() == constant.String {
				msgs = append(msgs, constant.StringVal(tv.Value))
			}
			return true
		})
		sort.Strings(msgs)
		// a raise site must also be reachable: its guard may not test a variable for non-nil that nothing before it sets
		for _, dg := range deadNilGuards(p.TypesInfo, fd) {
			r.bad("raises|"+id+"|dead guard "+dg.cond, dg.pos, "the TypeError raised under `%s` in %s cannot happen: %s is declared but nothing assigns it before this test (the lookup that would make it non-nil was moved after it), so the misuse this site reports is now accepted silently", dg.cond, id, dg.name)
		}
		for _, ph := range rc.phrases {
			found := false
			for _, m := range msgs {
				if strings.Contains(m, ph) {
					found = true
				}
			}
			r.check(found, "raises|"+id+"|"+ph, fd.Pos(),
				"the binder raises TypeError for this misuse",
				fmt.Sprintf("%s has no ExceptionNewf(TypeError, …) whose message contains %q any more: the misuse this message reports (an argument given twice / unknown / missing / surplus) is now bound silently", id, ph))
		}
	}
}

func runC04R4(c *Ctx, r *Rep) {
	fd := c.FuncDecl("vm", "EvalCode")
	if fd == nil || fd.Body == nil {
		r.undecided("kwsearch|vm.EvalCode", token.NoPos, "anchor function not found")
		return
	}
	vmp := c.MustPkg("vm")
	fd, alias := c.ExpandAlias(vmp, fd)
	// an identifier, by the variable of EvalCode it stands for (a parameter of a put-back helper is the argument)
	nameOf := func(e ast.Expr) string {
		id := identOf(e)
		if id == nil {
			return exprStr(e)
		}
		if o := vmp.TypesInfo.Uses[id]; o != nil {
			if a := alias(o); a != nil {
				return a.Name()
			}
		}
		return id.Name
	}
	r.analysed("vm.EvalCode")
	// the loop over the keyword arguments
	var kwLoop *ast.RangeStmt
	ast.Inspect(fd.Body, func(n ast.Node) bool {
		if rs, ok := n.(*ast.RangeStmt); ok && kwLoop == nil && exprStr(rs.X) == "kws" {
			kwLoop = rs
		}
		return true
	})
	if kwLoop == nil {
		r.undecided("kwsearch|loop", fd.Pos(), "no `range kws` loop found in EvalCode")
		return
	}
	kwVar := ""
	if kwLoop.Key != nil {
		kwVar = exprStr(kwLoop.Key)
	}
	// searches comparing a variable name with the keyword
	n := 0
	ast.Inspect(kwLoop.Body, func(nd ast.Node) bool {
		switch loop := nd.(type) {
		case *ast.ForStmt:
			cmp := false
			ast.Inspect(loop.Body, func(m ast.Node) bool {
				if be, ok := m.(*ast.BinaryExpr); ok && be.Op == token.EQL && (nameOf(be.Y) == kwVar || nameOf(be.X) == kwVar) && strings.Contains(exprStr(be), "Varnames") {
					cmp = true
				}
				return true
			})
			if !cmp {
				return true
			}
			n++
			bound := ""
			if be, ok := loop.Cond.(*ast.BinaryExpr); ok && be.Op == token.LSS {
				bound = nameOf(be.Y)
			}
			r.check(bound == "total_args", "kwsearch|bounded by total_args", loop.Pos(),
				"the search for the keyword among the parameter names stops at total_args",
				fmt.Sprintf("the loop matching a keyword against co.Varnames runs to `%s`, not to total_args (= Argcount + Kwonlyargcount): names beyond that are local variables and the *args/**kwargs slots, which a keyword argument must never bind", bound))
		case *ast.RangeStmt:
			if loop == kwLoop || !strings.Contains(exprStr(loop.X), "Varnames") {
				return true
			}
			cmp := false
			ast.Inspect(loop.Body, func(m ast.Node) bool {
				if be, ok := m.(*ast.BinaryExpr); ok && be.Op == token.EQL && (nameOf(be.Y) == kwVar || nameOf(be.X) == kwVar) {
					cmp = true
				}
				return true
			})
			if !cmp {
				return true
			}
			n++
			okSlice := strings.Contains(exprStr(loop.X), "[:total_args]")
			r.check(okSlice, "kwsearch|bounded by total_args", loop.Pos(),
				"the search ranges over the first total_args names",
				fmt.Sprintf("the loop matching a keyword ranges over `%s`, all variable names of the callee: a keyword argument can then bind a local variable or the *args/**kwargs slot (f(**{'local': 1}) is accepted)", exprStr(loop.X)))
		}
		return true
	})
	if n == 0 {
		r.undecided("kwsearch|search", kwLoop.Pos(), "no search of the keyword among co.Varnames found in the keyword loop")
	}
}

func init() {
	register(&Rule{ID: "C04.R5", Prop: "C04", Floor: 2,
		Doc: "call-site grammar (own yacc reader): an arglist action that extends a call node carried over from an earlier symbol extends Args/Keywords with append(field, …) and never overwrites them",
		Run: runC04R2})
	register(&Rule{ID: "C04.R3", Prop: "C04", Floor: 12,
		Doc: "binder raise-site census: EvalCode, formatMissing, tooManyPositional, Vm.Call, ParseTupleAndKeywords, UnpackTuple and Method.Call each still contain the ExceptionNewf(TypeError, …) sites for duplicate, unexpected, missing, keyword-only and surplus arguments (checkNumberOfArgs for arity) (message constants resolved by the type checker)",
		Run: runC04R3})
	register(&Rule{ID: "C04.R4", Prop: "C04", Floor: 1,
		Doc: "EvalCode matches a keyword argument only against the first total_args = Argcount + Kwonlyargcount variable names",
		Run: runC04R4})
}

type deadGuard struct {
	cond string
	name string
	pos  token.Pos
}

// deadNilGuards finds `if v != nil { …raise… }` where v is a local declared with `var` (zero value) in the same block
// and no assignment to v lies between the declaration and the test.
func deadNilGuards(info *types.Info, fd *ast.FuncDecl) []deadGuard {
	var out []deadGuard
	ast.Inspect(fd.Body, func(n ast.Node) bool {
		is, ok := n.(*ast.IfStmt)
		if !ok {
			return true
		}
		be, ok := unparen(is.Cond).(*ast.BinaryExpr)
		if !ok || be.Op != token.NEQ || exprStr(be.Y) != "nil" {
			return true
		}
		id, ok := be.X.(*ast.Ident)
		if !ok {
			return true
		}
		raises := false
		ast.Inspect(is.Body, func(m ast.Node) bool {
			if call, ok := m.(*ast.CallExpr); ok {
				if fn := Callee(info, call); fn != nil && fn.Name() == "ExceptionNewf" {
					raises = true
				}
			}
			return true
		})
		if !raises {
			return true
		}
		obj := info.Uses[id]
		v, ok := obj.(*types.Var)
		if !ok || v.Pos() < fd.Body.Pos() {
			return true // parameter or outer variable
		}
		// declared by `var` without initialiser?
		zeroDecl := false
		assigned := false
		ast.Inspect(fd.Body, func(m ast.Node) bool {
			switch x := m.(type) {
			case *ast.ValueSpec:
				for i, nm := range x.Names {
					if info.Defs[nm] == obj && i >= len(x.Values) {
						zeroDecl = true
					}
				}
			case *ast.AssignStmt:
				if x.Pos() > v.Pos() && x.End() <= is.Pos() {
					for _, l := range x.Lhs {
						if lid, ok := l.(*ast.Ident); ok && (info.Uses[lid] == obj || info.Defs[lid] == obj) {
							assigned = true
						}
					}
				}
			case *ast.UnaryExpr:
				if x.Op == token.AND && x.Pos() > v.Pos() && x.End() <= is.Pos() {
					if lid, ok := x.X.(*ast.Ident); ok && info.Uses[lid] == obj {
						assigned = true // address taken: may be set through the pointer
					}
				}
			}
			return true
		})
		if zeroDecl && !assigned {
			out = append(out, deadGuard{exprStr(is.Cond), id.Name, is.Pos()})
		}
		return true
	})
	return out
}
