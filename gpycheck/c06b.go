package main

import (
	"fmt"
	"go/ast"
	"go/parser"
	"go/token"
	"go/types"
	"sort"
)

// C06.R5: character classes in the lexer and the escape decoder are decided on exact characters.
//
// Python defines its token classes over ASCII for everything except identifiers: digits of number literals and of
// octal/hex escapes are 0-9 / 0-7 / hex, an explicit line joining is a backslash IMMEDIATELY followed by the newline,
// blank-line detection knows form feed. Go's Unicode-aware or whitespace-folding helpers (unicode.IsDigit accepts every
// Nd digit, strings.TrimSpace folds any run of Unicode white space) silently widen these classes. The rule is a
// who-may-call census over package parser: each call of such a helper must be on the reviewed list.

var foldingHelpers = map[string]bool{
	"unicode.IsDigit": true, "unicode.IsNumber": true, "unicode.IsSpace": true, "unicode.IsLetter": true, "unicode.IsPunct": true,
	"strings.TrimSpace": true, "strings.Fields": true, "bytes.TrimSpace": true, "bytes.Fields": true, "strings.EqualFold": true,
	"strings.ToLower": true, "strings.ToUpper": true,
}

// reviewed uses: "<function>|<helper>(<args>)" -> why it is right
var confirmedFolding = map[string]string{
	"(*parser.yyLex).Lex|strings.TrimSpace(x.line)": "blank-line detection after leading blanks and tabs were cut: the remaining white space that makes a line blank is exactly what TrimSpace removes (form feed, CR, NL)",
}

func foldingCalls(info *types.Info, body ast.Node) (out []struct {
	key string
	pos token.Pos
}) {
	ast.Inspect(body, func(n ast.Node) bool {
		call, ok := n.(*ast.CallExpr)
		if !ok {
			return true
		}
		name := ""
		if info != nil {
			if fn := Callee(info, call); fn != nil && fn.Pkg() != nil {
				name = fn.Pkg().Name() + "." + fn.Name()
			}
		} else {
			name = exprStr(call.Fun)
		}
		if foldingHelpers[name] {
			var as []string
			for _, a := range call.Args {
				as = append(as, exprStr(a))
			}
			out = append(out, struct {
				key string
				pos token.Pos
			}{fmt.Sprintf("%s(%s)", name, joinStr(as, ", ")), call.Pos()})
		}
		return true
	})
	return
}

func joinStr(s []string, sep string) string {
	out := ""
	for i, x := range s {
		if i > 0 {
			out += sep
		}
		out += x
	}
	return out
}

const foldingExample = `package p
import ("strings"; "unicode")
func f(line string, r rune) bool { return strings.TrimSpace(line[1:]) == "" || unicode.IsDigit(r) }`

func runC06R5(c *Ctx, r *Rep) {
	// positive example: the matcher must see both calls
	f, err := parser.ParseFile(token.NewFileSet(), "example.go", foldingExample, 0)
	if err != nil || len(foldingCalls(nil, f)) != 2 {
		r.undecided("folding|selftest", token.NoPos, "the matcher does not find the two calls of its built-in example")
		return
	}
	r.okTrivial("folding|selftest", token.NoPos, "the matcher finds strings.TrimSpace and unicode.IsDigit in its built-in example")
	p := c.MustPkg("parser")
	seen := map[string]bool{}
	nfuncs := 0
	for _, file := range c.Files(p) {
		name := fileOf(c, file.Pos())
		if name == "y.go" {
			continue // generated; its actions are covered through grammar.y (C06.R1)
		}
		for _, d := range file.Decls {
			fd, ok := d.(*ast.FuncDecl)
			if !ok || fd.Body == nil {
				continue
			}
			nfuncs++
			id := declID(p, fd)
			for _, fc := range foldingCalls(p.TypesInfo, fd.Body) {
				key := id + "|" + fc.key
				seen[key] = true
				if why, ok := confirmedFolding[key]; ok {
					r.ok("folding|"+key, fc.pos, "reviewed: %s", why)
				} else {
					r.bad("folding|"+key, fc.pos, "%s decides a token class with %s: the helper accepts more than Python's definition (every Unicode decimal digit / any Unicode white space / case folding), so inputs such as an octal escape followed by '8', or a backslash followed by blanks, are lexed differently from Python; test the exact characters", id, fc.key)
				}
			}
		}
	}
	var stale []string
	for k := range confirmedFolding {
		if !seen[k] {
			stale = append(stale, k)
		}
	}
	sort.Strings(stale)
	for _, k := range stale {
		r.note("reviewed use no longer present: %s", k)
	}
	r.ok("folding|census", token.NoPos, "%d functions of package parser examined for Unicode-class and whitespace-folding helpers", nfuncs)
}

func init() {
	register(&Rule{ID: "C06.R5", Prop: "C06", Floor: 2,
		Doc: "exact character classes: package parser (lexer, escape decoder, number reader) calls a Unicode-class or whitespace-folding helper (unicode.IsDigit/IsSpace/…, strings.TrimSpace/Fields/…) only at reviewed sites; identifiers use explicit unicode.In tables",
		Run: runC06R5})
}
