package main

import (
	"fmt"
	"go/ast"
	"go/token"
	"go/types"
	"sort"
	"strings"
)

func init() {
	register(&Rule{ID: "C02.R9", Prop: "C02", Floor: 9,
		Doc: "(= C12.R1 for the block and exception opcodes) the handlers of SETUP_*/POP_BLOCK/POP_EXCEPT/END_FINALLY/WITH_CLEANUP/RAISE_VARARGS/BREAK_LOOP/CONTINUE_LOOP leave the value stack at the height the compiler's table predicts on every successful path: the exception state is saved on and restored from that stack, so a handler off by a slot restores the wrong exception",
		Run: runC02R9})
	register(&Rule{ID: "C12.R1", Prop: "C12", Floor: 95,
		Doc: "handler stack effect = compiler's table: every opcode handler is interpreted path by path over an abstract stack (primitives inlined from their own bodies, heights linear in the operand and its bit-fields); each successful path's net effect must equal opcodeStackEffect(op, arg) (or, for jump opcodes, the fall-through/jump-taken value stackDepthWalk models; for the block-reservation opcodes, stay within the reservation)",
		Run: runC12R1})
}

type handlerPath struct {
	delta   *lin
	eqs     []*lin
	nes     []*lin
	conds   []string
	jump    bool // assigns Lasti
	yield   bool // suspends the frame (vm.why = whyYield)
	st      *sstate
	errPath bool
	maybe   bool
}

// analyseHandler runs the interpreter over a handler and classifies the paths.
func analyseHandler(se *symExec, fd *ast.FuncDecl) (paths []handlerPath, und []string, undPos []token.Pos) {
	res := se.runHandler(fd)
	if se.overflow {
		und = append(und, "path explosion")
		undPos = append(undPos, fd.Pos())
	}
	for _, pr := range res {
		hp := handlerPath{st: pr.st, eqs: pr.st.eqs, nes: pr.st.nes, conds: pr.st.conds}
		if len(pr.rets) == 1 {
			switch pr.rets[0].kind {
			case vErrNonNil:
				hp.errPath = true
			case vErrNil:
			default:
				hp.maybe = true
			}
		}
		hp.delta = reduceWith(pr.st.delta(), pr.st.eqs)
		for _, a := range pr.st.assigns {
			if strings.HasSuffix(a.lhs, ".Lasti") && !strings.Contains(a.src, "--") {
				hp.jump = true
			}
			if strings.HasSuffix(a.lhs, ".why") && strings.Contains(a.src, "whyYield") {
				hp.yield = true
			}
		}
		for i, u := range pr.st.und {
			und = append(und, u)
			undPos = append(undPos, pr.st.undPos[i])
		}
		paths = append(paths, hp)
	}
	return
}

type tablePath struct {
	val *lin
	eqs []*lin
	nes []*lin
}

// tableEffects evaluates compile.opcodeStackEffect(op, arg) symbolically.
func tableEffects(c *Ctx, se *symExec, opVal int64) ([]tablePath, []string) {
	fd := c.FuncDecl("compile", "opcodeStackEffect")
	opv := val{kind: vInt, lin: linConst(opVal)}
	argv := val{kind: vInt, lin: linSym("arg")}
	res := se.runFunc(fd, []*val{&opv, &argv}, []string{"opcode", "arg"})
	var out []tablePath
	var und []string
	for _, pr := range res {
		und = append(und, pr.st.und...)
		if len(pr.rets) != 1 || pr.rets[0].kind != vInt {
			und = append(und, "table value is not a linear expression")
			continue
		}
		out = append(out, tablePath{val: pr.rets[0].lin, eqs: pr.st.eqs, nes: pr.st.nes})
	}
	return out, und
}

// compatible reports whether the table path's constraints can hold together with the handler path's.
func compatible(tp tablePath, eqs, nes []*lin) bool {
	for _, e := range tp.eqs {
		r := reduceWith(e, eqs)
		if r.isConst() && r.c != 0 {
			return false
		}
		for _, n := range nes {
			if n.equal(e) || n.equal(e.scale(-1)) {
				return false
			}
		}
	}
	for _, n := range tp.nes {
		r := reduceWith(n, eqs)
		if r.isZero() {
			return false
		}
	}
	return true
}

// walkAdjust extracts from compile.stackDepthWalk, per jump opcode, how the depth at the jump target
// and on the fall-through differs from depth-after-effect: `target_depth = depth ± k`, `depth = depth - k`.
func walkAdjust(c *Ctx, m *vmModel) (target map[string]int64, fall map[string]int64, ok bool) {
	fd := c.MethodDecl("compile", "Instructions", "stackDepthWalk")
	if fd == nil {
		return nil, nil, false
	}
	p := c.MustPkg("compile")
	info := p.TypesInfo
	target, fall = map[string]int64{}, map[string]int64{}
	found := false
	// roles: the depth parameter, and the local that starts as a copy of it (the depth at the jump target)
	var depthObj, targetObj types.Object
	if fd.Type.Params != nil {
		for _, f := range fd.Type.Params.List {
			for _, nm := range f.Names {
				if nm.Name == "depth" {
					depthObj = info.Defs[nm]
				}
			}
		}
	}
	ast.Inspect(fd.Body, func(n ast.Node) bool {
		if as, ok := n.(*ast.AssignStmt); ok && as.Tok == token.DEFINE && len(as.Lhs) == 1 && len(as.Rhs) == 1 && targetObj == nil {
			if rid := identOf(as.Rhs[0]); rid != nil && depthObj != nil && info.Uses[rid] == depthObj {
				if lid := identOf(as.Lhs[0]); lid != nil {
					targetObj = info.Defs[lid]
				}
			}
		}
		return true
	})
	// one arm of the opcode decision: the opcodes it is taken for and its statements
	arm := func(ops []string, body []ast.Stmt) {
		for _, s := range body {
			as, ok := s.(*ast.AssignStmt)
			if !ok || len(as.Lhs) != 1 || len(as.Rhs) != 1 {
				continue
			}
			lhs := identOf(as.Lhs[0])
			be, ok := unparen(as.Rhs[0]).(*ast.BinaryExpr)
			if lhs == nil || !ok {
				continue
			}
			base := identOf(be.X)
			k, isK := constInt(info, be.Y)
			if base == nil || depthObj == nil || info.Uses[base] != depthObj || !isK {
				continue
			}
			if be.Op == token.SUB {
				k = -k
			}
			lobj := info.Uses[lhs]
			for _, op := range ops {
				switch {
				case lobj != nil && lobj == targetObj:
					target[op] = k
					found = true
				case lobj != nil && lobj == depthObj:
					fall[op] = k
					found = true
				}
			}
		}
	}
	var visitIf func(x *ast.IfStmt)
	visitIf = func(x *ast.IfStmt) {
		var ops []string
		ast.Inspect(x.Cond, func(n ast.Node) bool {
			if b, ok := n.(*ast.BinaryExpr); ok && b.Op == token.EQL {
				if name, ok := m.opcodeOf(info, b.Y); ok {
					ops = append(ops, name)
				}
			}
			return true
		})
		arm(ops, x.Body.List)
		if e, ok := x.Else.(*ast.IfStmt); ok {
			visitIf(e)
		}
	}
	ast.Inspect(fd.Body, func(n ast.Node) bool {
		switch x := n.(type) {
		case *ast.IfStmt:
			// chains that compare the opcode with opcode constants
			isOp := false
			ast.Inspect(x.Cond, func(m2 ast.Node) bool {
				if b, ok := m2.(*ast.BinaryExpr); ok && b.Op == token.EQL {
					if _, ok := m.opcodeOf(info, b.Y); ok {
						isOp = true
					}
				}
				return true
			})
			if isOp {
				visitIf(x)
				return false
			}
		case *ast.SwitchStmt:
			// the same decision written as a switch over the opcode
			if x.Tag == nil {
				return true
			}
			for _, cl := range x.Body.List {
				cc := cl.(*ast.CaseClause)
				var ops []string
				for _, e := range cc.List {
					if name, ok := m.opcodeOf(info, e); ok {
						ops = append(ops, name)
					}
				}
				if len(ops) > 0 {
					arm(ops, cc.Body)
				}
			}
		}
		return true
	})
	return target, fall, found
}

// reservation opcodes: the table value is space reserved for what the unwinder / later opcodes push,
// not the handler's own effect; handler effect must not exceed it.
var reservationOps = map[string]bool{"SETUP_EXCEPT": true, "SETUP_FINALLY": true, "SETUP_WITH": true}

// opcodes whose effect depends on run-time values found on the stack (CPython: "or -2 or -3 if exception occurred").
// allowed: the set of net effects ceval.c's handler can have.
var variableOps = map[string][]string{
	"END_FINALLY":  {"-1", "-2", "-3", "unwind"},
	"WITH_CLEANUP": {"-1", "0", "1"},
	"POP_EXCEPT":   {"unwind"},
}

// the opcodes that carry exceptions and blocks: their handlers' stack effects are C02's business as well — the
// exception state is saved on and restored from the value stack, so a handler that leaves the stack at another height
// than the compiler predicts restores the wrong exception
var c02StackOps = map[string]bool{"POP_EXCEPT": true, "END_FINALLY": true, "POP_BLOCK": true, "SETUP_EXCEPT": true, "SETUP_FINALLY": true,
	"SETUP_LOOP": true, "SETUP_WITH": true, "WITH_CLEANUP": true, "RAISE_VARARGS": true, "BREAK_LOOP": true, "CONTINUE_LOOP": true}

var c12R1Only map[string]bool

func runC02R9(c *Ctx, r *Rep) {
	c12R1Only = c02StackOps
	defer func() { c12R1Only = nil }()
	runC12R1(c, r)
}

func runC12R1(c *Ctx, r *Rep) {
	m := getVMModel(c)
	seVM := newSymExec(c, "vm")
	seC := newSymExec(c, "compile")
	tAdj, fAdj, okAdj := walkAdjust(c, m)
	if !okAdj {
		r.undecided("compile|Instructions.stackDepthWalk|jump adjustments", token.NoPos, "could not extract the jump-target / fall-through depth adjustments")
	} else {
		r.note("stackDepthWalk adjustments: target %v fall-through %v", tAdj, fAdj)
	}
	cases, _ := stackEffectCases(c, m)
	for _, op := range m.opNames() {
		h := m.handlers[op]
		if h == nil || h == m.defaultH {
			continue
		}
		if c12R1Only != nil && !c12R1Only[op] {
			continue
		}
		fd := c.Decl(h)
		if fd == nil {
			continue
		}
		r.analysed(FuncID(h))
		key := "vm|" + h.Name() + "|stack effect of " + op
		if _, ok := cases[op]; !ok {
			// opcode never given a table entry (EXTENDED_ARG, NOP): the compiler cannot emit it through StackDepth
			paths, _, _ := analyseHandler(seVM, fd)
			bad := false
			for _, p := range paths {
				if !p.errPath && !p.delta.isZero() {
					bad = true
				}
			}
			r.check(!bad, key, fd.Pos(), "no table entry; handler leaves the stack height unchanged", "opcode without a table entry changes the stack height")
			continue
		}
		paths, und, undPos := analyseHandler(seVM, fd)
		if len(und) > 0 {
			r.undecided(key, undPos[0], "handler shape not interpretable: %s", strings.Join(uniq(und), "; "))
			continue
		}
		tps, tund := tableEffects(c, seC, constVal(m.ops[op]))
		if len(tund) > 0 || len(tps) == 0 {
			r.undecided(key, fd.Pos(), "opcodeStackEffect arm not interpretable: %v", tund)
			continue
		}
		nsucc := 0
		var problems []string
		var seen []string
		for _, p := range paths {
			if p.errPath {
				continue
			}
			nsucc++
			ds := p.delta.String()
			if strings.Contains(ds, "Level") {
				ds = "unwind"
			}
			seen = append(seen, ds)
			if allowed, ok := variableOps[op]; ok {
				found := false
				for _, a := range allowed {
					if a == ds {
						found = true
					}
				}
				if !found {
					problems = append(problems, fmt.Sprintf("path [%s] has net effect %s, outside the set %v that ceval.c's %s can have", strings.Join(p.conds, " && "), ds, allowed, op))
				}
				continue
			}
			if p.yield {
				// a suspending path consumes exactly the value it hands out; Generator.Send pushes exactly one
				// value on resumption (C05.R4), which restores the height the table models
				if ds != "-1" {
					problems = append(problems, fmt.Sprintf("suspending path [%s] changes the stack height by %s; it must pop exactly the yielded/sent value (-1), the resume pushes one back", strings.Join(p.conds, " && "), ds))
				}
				continue
			}
			matched, anyCompat := false, false
			var wantStr []string
			for _, tp := range tps {
				if !compatible(tp, p.eqs, p.nes) {
					continue
				}
				anyCompat = true
				want := tp.val
				if p.jump {
					if k, ok := tAdj[op]; ok {
						want = want.add(linConst(k))
					}
				} else if k, ok := fAdj[op]; ok {
					want = want.add(linConst(k))
				}
				diff := reduceWith(p.delta.sub(want), append(append([]*lin{}, p.eqs...), tp.eqs...))
				if reservationOps[op] {
					// handler effect must stay within the reservation
					if diff.isConst() && diff.c <= 0 {
						matched = true
					}
				} else if diff.isZero() {
					matched = true
				}
				wantStr = append(wantStr, want.String())
			}
			if !anyCompat {
				problems = append(problems, fmt.Sprintf("path [%s]: no table arm is compatible with the path's constraints", strings.Join(p.conds, " && ")))
			} else if !matched {
				kind := "fall-through"
				if p.jump {
					kind = "jump-taken"
				}
				problems = append(problems, fmt.Sprintf("%s path [%s] changes the stack height by %s; the compiler's table (with stackDepthWalk's adjustment) models %s", kind, strings.Join(p.conds, " && "), ds, strings.Join(uniq(wantStr), " or ")))
			}
		}
		sort.Strings(seen)
		if nsucc == 0 {
			r.undecided(key, fd.Pos(), "handler has no successful path")
			continue
		}
		if len(problems) > 0 {
			problems = uniq(problems)
			if len(problems) > 3 {
				problems = append(problems[:3], fmt.Sprintf("… and %d more paths", len(problems)-3))
			}
			r.bad(key, fd.Pos(), "%s", strings.Join(problems, " | "))
		} else {
			r.ok(key, fd.Pos(), "%d successful paths, effects {%s} = table", nsucc, strings.Join(uniq(seen), ", "))
		}
	}
}

// ---- C12.R9: what the unwinder pushes is what the table reserves and what END_FINALLY pops ----

func init() {
	register(&Rule{ID: "C12.R9", Prop: "C12", Floor: 7,
		Doc: "unwinder/handler/table agreement: for each reason the block-unwinding loop pushes exactly the values END_FINALLY (+ the except-handler unwind) pops for that reason; the stack-effect reservation of SETUP_EXCEPT/SETUP_FINALLY covers the unwinder's largest push, SETUP_WITH's additionally covers its own push and WITH_CLEANUP's extra value",
		Run: runC12R9})
}

func runC12R9(c *Ctx, r *Rep) {
	m := getVMModel(c)
	loop, _, names, why := findUnwindLoop(c)
	if loop == nil {
		r.undecided("vm|RunFrame|unwinding loop", token.NoPos, "%s", why)
		return
	}
	se := newSymExec(c, "vm")
	fin := c.ConstObj("py", "TryBlockSetupFinally")
	if fin == nil {
		r.undecided("py|TryBlockSetupFinally", token.NoPos, "constant not found")
		return
	}
	pushes := map[string]int{}
	maxPush := 0
	for _, w := range []string{"whyException", "whyReturn", "whyBreak", "whyContinue"} {
		wk := c.ConstObj("vm", w)
		if wk == nil {
			r.undecided("vm|"+w, token.NoPos, "constant not found")
			return
		}
		n := -1
		for _, o := range runUnwind(c, se, loop, names, constVal(fin), constVal(wk)) {
			if len(o.st.und) > 0 {
				r.undecided("vm|RunFrame|unwind pushes "+w, loop.Pos(), "%s", strings.Join(o.st.und, "; "))
				return
			}
			k := len(o.st.pushed)
			if n >= 0 && n != k {
				r.bad("vm|RunFrame|unwind pushes "+w, loop.Pos(), "the number of values pushed for %s depends on the path (%d vs %d)", w, n, k)
			}
			n = k
		}
		pushes[w] = n
		if n > maxPush {
			maxPush = n
		}
	}
	// END_FINALLY pops by reason
	h := m.handlers["END_FINALLY"]
	if h == nil {
		r.bad("vm|jumpTable|END_FINALLY", token.NoPos, "no handler")
		return
	}
	hfd := c.Decl(h)
	r.analysed(FuncID(h))
	paths, und, undPos := analyseHandler(se, hfd)
	if len(und) > 0 {
		r.undecided("vm|"+h.Name()+"|shape", undPos[0], "%s", strings.Join(und, "; "))
		return
	}
	pops := map[string]map[string]bool{}
	note := func(k, d string) {
		if pops[k] == nil {
			pops[k] = map[string]bool{}
		}
		pops[k][d] = true
	}
	for _, p := range paths {
		if p.errPath {
			continue
		}
		cs := strings.Join(p.conds, " && ")
		ds := p.delta.String()
		switch {
		case strings.Contains(cs, "vm.why == whyReturn"):
			note("whyReturn", ds)
		case strings.Contains(cs, "vm.why == whyContinue"):
			note("whyContinue", ds)
		case strings.Contains(cs, "vm.why == whySilenced"):
		case strings.Contains(cs, "vm.why != whySilenced") && strings.Contains(cs, "vm.why != whyReturn"):
			note("whyBreak", ds)
		case strings.Contains(cs, "ExceptionClassCheck") && !strings.Contains(cs, "!(py.ExceptionClassCheck"):
			note("whyException", ds)
		}
	}
	keys := func(mm map[string]bool) []string {
		var o []string
		for k := range mm {
			o = append(o, k)
		}
		return uniq(o)
	}
	for _, w := range []string{"whyReturn", "whyContinue", "whyBreak"} {
		want := fmt.Sprintf("%d", -pushes[w])
		got := keys(pops[w])
		r.check(len(got) == 1 && got[0] == want, "vm|unwinder vs END_FINALLY|"+w, hfd.Pos(),
			fmt.Sprintf("unwinder pushes %d, END_FINALLY pops %d", pushes[w], pushes[w]),
			fmt.Sprintf("for %s the unwinder pushes %d value(s) before entering the finally body but END_FINALLY's arm for that reason changes the stack by %v: the finally body runs at a depth the compiler did not predict and END_FINALLY misreads the stack", w, pushes[w], got))
	}
	// exception: END_FINALLY pops 3 (type, value, tb), the remaining 3 are popped when the except-handler block is unwound
	got := keys(pops["whyException"])
	r.check(pushes["whyException"] == 6 && len(got) == 1 && got[0] == "-3", "vm|unwinder vs END_FINALLY|whyException", hfd.Pos(),
		"unwinder pushes 6, END_FINALLY pops 3 and the handler block's unwind restores 3",
		fmt.Sprintf("for an exception the unwinder pushes %d values; END_FINALLY's re-raise arm changes the stack by %v (expected 6 / -3)", pushes["whyException"], got))
	// reservations
	seC := newSymExec(c, "compile")
	tAdj, _, _ := walkAdjust(c, m)
	tbl := func(op string) (int64, bool) {
		tps, und := tableEffects(c, seC, constVal(m.ops[op]))
		if len(und) > 0 || len(tps) != 1 || !tps[0].val.isConst() {
			return 0, false
		}
		return tps[0].val.c, true
	}
	for _, op := range []string{"SETUP_EXCEPT", "SETUP_FINALLY"} {
		v, ok := tbl(op)
		if !ok {
			r.undecided("compile|opcodeStackEffect|"+op, token.NoPos, "table value not constant")
			continue
		}
		r.check(v >= int64(maxPush) || v+tAdj[op] >= int64(maxPush), "compile|opcodeStackEffect|"+op+" reservation", token.NoPos,
			fmt.Sprintf("reserves %d (+%d at the handler) >= %d values the unwinder can push", v, tAdj[op], maxPush),
			fmt.Sprintf("%s reserves %d stack slots (+%d at the handler) but the unwinder pushes up to %d values on entry to the handler: the declared stack size can be exceeded", op, v, tAdj[op], maxPush))
	}
	// SETUP_WITH: own push (relative to the block level) + unwinder's + WITH_CLEANUP's extra value on the exception arm
	if v, ok := tbl("SETUP_WITH"); ok {
		extra := 0
		if wh := m.handlers["WITH_CLEANUP"]; wh != nil {
			wp, wund, _ := analyseHandler(se, c.Decl(wh))
			if len(wund) == 0 {
				for _, p := range wp {
					if !p.errPath && p.delta.isConst() && int(p.delta.c) > extra {
						extra = int(p.delta.c)
					}
				}
			}
		}
		need := int64(maxPush + extra)
		r.check(v >= need, "compile|opcodeStackEffect|SETUP_WITH reservation", token.NoPos,
			fmt.Sprintf("reserves %d >= %d (unwinder) + %d (WITH_CLEANUP's silenced marker)", v, maxPush, extra),
			fmt.Sprintf("SETUP_WITH reserves %d stack slots but a with-body that raises needs %d (the unwinder's %d values plus WITH_CLEANUP's extra %d): Stacksize is too small for a with statement whose __exit__ silences an exception", v, need, maxPush, extra))
	} else {
		r.undecided("compile|opcodeStackEffect|SETUP_WITH", token.NoPos, "table value not constant")
	}
}
