package main

import (
	"fmt"
	"go/ast"
	"go/token"
	"sort"
	"strings"
)

func init() {
	register(&Rule{ID: "C12.R1", Prop: "C12", Floor: 95,
		Doc: "handler stack effect = compiler's table: every opcode handler is interpreted path by path over an abstract stack (primitives inlined from their own bodies, heights linear in the operand and its bit-fields); each successful path's net effect must equal opcodeStackEffect(op, arg) (or, for jump opcodes, the fall-through/jump-taken value stackDepthWalk models; for the block-reservation opcodes, stay within the reservation)",
		Run: runC12R1})
}

type handlerPath struct {
	delta   *lin
	eqs     []*lin
	nes     []*lin
	conds   []string
	jump    bool // assigns Lasti
	yield   bool // suspends the frame (vm.why = whyYield)
	st      *sstate
	errPath bool
	maybe   bool
}

// analyseHandler runs the interpreter over a handler and classifies the paths.
func analyseHandler(se *symExec, fd *ast.FuncDecl) (paths []handlerPath, und []string, undPos []token.Pos) {
	res := se.runHandler(fd)
	if se.overflow {
		und = append(und, "path explosion")
		undPos = append(undPos, fd.Pos())
	}
	for _, pr := range res {
		hp := handlerPath{st: pr.st, eqs: pr.st.eqs, nes: pr.st.nes, conds: pr.st.conds}
		if len(pr.rets) == 1 {
			switch pr.rets[0].kind {
			case vErrNonNil:
				hp.errPath = true
			case vErrNil:
			default:
				hp.maybe = true
			}
		}
		hp.delta = reduceWith(pr.st.delta(), pr.st.eqs)
		for _, a := range pr.st.assigns {
			if strings.HasSuffix(a.lhs, ".Lasti") && !strings.Contains(a.src, "--") {
				hp.jump = true
			}
			if strings.HasSuffix(a.lhs, ".why") && strings.Contains(a.src, "whyYield") {
				hp.yield = true
			}
		}
		for i, u := range pr.st.und {
			und = append(und, u)
			undPos = append(undPos, pr.st.undPos[i])
		}
		paths = append(paths, hp)
	}
	return
}

type tablePath struct {
	val *lin
	eqs []*lin
	nes []*lin
}

// tableEffects evaluates compile.opcodeStackEffect(op, arg) symbolically.
func tableEffects(c *Ctx, se *symExec, opVal int64) ([]tablePath, []string) {
	fd := c.FuncDecl("compile", "opcodeStackEffect")
	opv := val{kind: vInt, lin: linConst(opVal)}
	argv := val{kind: vInt, lin: linSym("arg")}
	res := se.runFunc(fd, []*val{&opv, &argv}, []string{"opcode", "arg"})
	var out []tablePath
	var und []string
	for _, pr := range res {
		und = append(und, pr.st.und...)
		if len(pr.rets) != 1 || pr.rets[0].kind != vInt {
			und = append(und, "table value is not a linear expression")
			continue
		}
		out = append(out, tablePath{val: pr.rets[0].lin, eqs: pr.st.eqs, nes: pr.st.nes})
	}
	return out, und
}

// compatible reports whether the table path's constraints can hold together with the handler path's.
func compatible(tp tablePath, eqs, nes []*lin) bool {
	for _, e := range tp.eqs {
		r := reduceWith(e, eqs)
		if r.isConst() && r.c != 0 {
			return false
		}
		for _, n := range nes {
			if n.equal(e) || n.equal(e.scale(-1)) {
				return false
			}
		}
	}
	for _, n := range tp.nes {
		r := reduceWith(n, eqs)
		if r.isZero() {
			return false
		}
	}
	return true
}

// walkAdjust extracts from compile.stackDepthWalk, per jump opcode, how the depth at the jump target
// and on the fall-through differs from depth-after-effect: `target_depth = depth ± k`, `depth = depth - k`.
func walkAdjust(c *Ctx, m *vmModel) (target map[string]int64, fall map[string]int64, ok bool) {
	fd := c.MethodDecl("compile", "Instructions", "stackDepthWalk")
	if fd == nil {
		return nil, nil, false
	}
	p := c.MustPkg("compile")
	info := p.TypesInfo
	target, fall = map[string]int64{}, map[string]int64{}
	var visitIf func(x *ast.IfStmt)
	found := false
	visitIf = func(x *ast.IfStmt) {
		// collect opcodes compared in the condition
		var ops []string
		ast.Inspect(x.Cond, func(n ast.Node) bool {
			if b, ok := n.(*ast.BinaryExpr); ok && b.Op == token.EQL {
				if name, ok := m.opcodeOf(info, b.Y); ok {
					ops = append(ops, name)
				}
			}
			return true
		})
		for _, s := range x.Body.List {
			as, ok := s.(*ast.AssignStmt)
			if !ok || len(as.Lhs) != 1 || len(as.Rhs) != 1 {
				continue
			}
			lhs := identOf(as.Lhs[0])
			be, ok := unparen(as.Rhs[0]).(*ast.BinaryExpr)
			if lhs == nil || !ok {
				continue
			}
			base := identOf(be.X)
			k, isK := constInt(info, be.Y)
			if base == nil || base.Name != "depth" || !isK {
				continue
			}
			if be.Op == token.SUB {
				k = -k
			}
			for _, op := range ops {
				switch lhs.Name {
				case "target_depth":
					target[op] = k
					found = true
				case "depth":
					fall[op] = k
					found = true
				}
			}
		}
		if e, ok := x.Else.(*ast.IfStmt); ok {
			visitIf(e)
		}
	}
	ast.Inspect(fd.Body, func(n ast.Node) bool {
		if x, ok := n.(*ast.IfStmt); ok {
			// only chains that test `opcode ==`
			if strings.Contains(exprStr(x.Cond), "opcode ==") {
				visitIf(x)
				return false
			}
		}
		return true
	})
	return target, fall, found
}

// reservation opcodes: the table value is space reserved for what the unwinder / later opcodes push,
// not the handler's own effect; handler effect must not exceed it.
var reservationOps = map[string]bool{"SETUP_EXCEPT": true, "SETUP_FINALLY": true, "SETUP_WITH": true}

// opcodes whose effect depends on run-time values found on the stack (CPython: "or -2 or -3 if exception occurred").
// allowed: the set of net effects ceval.c's handler can have.
var variableOps = map[string][]string{
	"END_FINALLY":  {"-1", "-2", "-3", "unwind"},
	"WITH_CLEANUP": {"-1", "0", "1"},
	"POP_EXCEPT":   {"unwind"},
}

func runC12R1(c *Ctx, r *Rep) {
	m := getVMModel(c)
	seVM := newSymExec(c, "vm")
	seC := newSymExec(c, "compile")
	tAdj, fAdj, okAdj := walkAdjust(c, m)
	if !okAdj {
		r.undecided("compile|Instructions.stackDepthWalk|jump adjustments", token.NoPos, "could not extract the jump-target / fall-through depth adjustments")
	} else {
		r.note("stackDepthWalk adjustments: target %v fall-through %v", tAdj, fAdj)
	}
	cases, _ := stackEffectCases(c, m)
	for _, op := range m.opNames() {
		h := m.handlers[op]
		if h == nil || h == m.defaultH {
			continue
		}
		fd := c.Decl(h)
		if fd == nil {
			continue
		}
		r.analysed(FuncID(h))
		key := "vm|" + h.Name() + "|stack effect of " + op
		if _, ok := cases[op]; !ok {
			// opcode never given a table entry (EXTENDED_ARG, NOP): the compiler cannot emit it through StackDepth
			paths, _, _ := analyseHandler(seVM, fd)
			bad := false
			for _, p := range paths {
				if !p.errPath && !p.delta.isZero() {
					bad = true
				}
			}
			r.check(!bad, key, fd.Pos(), "no table entry; handler leaves the stack height unchanged", "opcode without a table entry changes the stack height")
			continue
		}
		paths, und, undPos := analyseHandler(seVM, fd)
		if len(und) > 0 {
			r.undecided(key, undPos[0], "handler shape not interpretable: %s", strings.Join(uniq(und), "; "))
			continue
		}
		tps, tund := tableEffects(c, seC, constVal(m.ops[op]))
		if len(tund) > 0 || len(tps) == 0 {
			r.undecided(key, fd.Pos(), "opcodeStackEffect arm not interpretable: %v", tund)
			continue
		}
		nsucc := 0
		var problems []string
		var seen []string
		for _, p := range paths {
			if p.errPath {
				continue
			}
			nsucc++
			ds := p.delta.String()
			if strings.Contains(ds, "Level") {
				ds = "unwind"
			}
			seen = append(seen, ds)
			if allowed, ok := variableOps[op]; ok {
				found := false
				for _, a := range allowed {
					if a == ds {
						found = true
					}
				}
				if !found {
					problems = append(problems, fmt.Sprintf("path [%s] has net effect %s, outside the set %v that ceval.c's %s can have", strings.Join(p.conds, " && "), ds, allowed, op))
				}
				continue
			}
			if p.yield {
				// a suspending path consumes exactly the value it hands out; Generator.Send pushes exactly one
				// value on resumption (C05.R4), which restores the height the table models
				if ds != "-1" {
					problems = append(problems, fmt.Sprintf("suspending path [%s] changes the stack height by %s; it must pop exactly the yielded/sent value (-1), the resume pushes one back", strings.Join(p.conds, " && "), ds))
				}
				continue
			}
			matched, anyCompat := false, false
			var wantStr []string
			for _, tp := range tps {
				if !compatible(tp, p.eqs, p.nes) {
					continue
				}
				anyCompat = true
				want := tp.val
				if p.jump {
					if k, ok := tAdj[op]; ok {
						want = want.add(linConst(k))
					}
				} else if k, ok := fAdj[op]; ok {
					want = want.add(linConst(k))
				}
				diff := reduceWith(p.delta.sub(want), append(append([]*lin{}, p.eqs...), tp.eqs...))
				if reservationOps[op] {
					// handler effect must stay within the reservation
					if diff.isConst() && diff.c <= 0 {
						matched = true
					}
				} else if diff.isZero() {
					matched = true
				}
				wantStr = append(wantStr, want.String())
			}
			if !anyCompat {
				problems = append(problems, fmt.Sprintf("path [%s]: no table arm is compatible with the path's constraints", strings.Join(p.conds, " && ")))
			} else if !matched {
				kind := "fall-through"
				if p.jump {
					kind = "jump-taken"
				}
				problems = append(problems, fmt.Sprintf("%s path [%s] changes the stack height by %s; the compiler's table (with stackDepthWalk's adjustment) models %s", kind, strings.Join(p.conds, " && "), ds, strings.Join(uniq(wantStr), " or ")))
			}
		}
		sort.Strings(seen)
		if nsucc == 0 {
			r.undecided(key, fd.Pos(), "handler has no successful path")
			continue
		}
		if len(problems) > 0 {
			problems = uniq(problems)
			if len(problems) > 3 {
				problems = append(problems[:3], fmt.Sprintf("… and %d more paths", len(problems)-3))
			}
			r.bad(key, fd.Pos(), "%s", strings.Join(problems, " | "))
		} else {
			r.ok(key, fd.Pos(), "%d successful paths, effects {%s} = table", nsucc, strings.Join(uniq(seen), ", "))
		}
	}
}
