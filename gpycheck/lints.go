package main

import (
	"fmt"
	"go/ast"
	"go/token"
	"go/types"
	"strings"

	"golang.org/x/tools/go/packages"
)

// Repository-specific lints shared by several properties.

// ---- comma-ok discipline ----
//
// For `v, ok := x.(T)` / `v, ok := m[k]` with T a pointer, interface, map, slice or func type,
// every dereferencing use of v (selector, call of a method, index, *v) must happen where ok is
// known to be true: inside `if ok {…}`, or after `if !ok {…}` whose body cannot fall through.
// A `!ok` branch that merely records an error and continues leaves v nil at the use.

type commaOKFinding struct {
	pos  token.Pos
	fn   string
	what string
	key  string
}

func nilable(t types.Type) bool {
	switch t.Underlying().(type) {
	case *types.Pointer, *types.Interface, *types.Map, *types.Slice, *types.Signature, *types.Chan:
		return true
	}
	return false
}

// cannotFallThrough: the statement list always ends in return / panic / goto / continue / break, or a call to a
// function that never returns.
func cannotFallThrough(c *Ctx, info *types.Info, list []ast.Stmt) bool {
	if len(list) == 0 {
		return false
	}
	switch x := list[len(list)-1].(type) {
	case *ast.ReturnStmt:
		return true
	case *ast.BranchStmt:
		return true
	case *ast.ExprStmt:
		if call, ok := x.X.(*ast.CallExpr); ok {
			if isBuiltinCall(info, call, "panic") {
				return true
			}
			if f := Callee(info, call); f != nil {
				if fd := c.Decl(f); fd != nil && fd.Body != nil && len(fd.Body.List) > 0 {
					hasRet := false
					ast.Inspect(fd.Body, func(n ast.Node) bool {
						if _, ok := n.(*ast.ReturnStmt); ok {
							hasRet = true
						}
						return true
					})
					if es, ok := fd.Body.List[len(fd.Body.List)-1].(*ast.ExprStmt); ok && !hasRet {
						if cl, ok := es.X.(*ast.CallExpr); ok && isBuiltinCall(c.DeclPkg(f).TypesInfo, cl, "panic") {
							return true
						}
					}
				}
			}
		}
	case *ast.IfStmt:
		if x.Else == nil {
			return false
		}
		eb, ok := x.Else.(*ast.BlockStmt)
		if !ok {
			return false
		}
		return cannotFallThrough(c, info, x.Body.List) && cannotFallThrough(c, info, eb.List)
	}
	return false
}

func commaOKFindings(c *Ctx, p *packages.Package, fd *ast.FuncDecl) []commaOKFinding {
	info := p.TypesInfo
	var out []commaOKFinding
	fnID := declID(p, fd)
	type pair struct {
		v, ok types.Object
		label string
	}
	type env struct {
		pairs []pair               // live comma-ok pairs
		fact  map[types.Object]int // ok variable: 1 known true, -1 known false
		disj  [][]types.Object     // at least one of these ok variables is true
	}
	clone := func(e *env) *env {
		n := &env{pairs: append([]pair{}, e.pairs...), fact: map[types.Object]int{}, disj: append([][]types.Object{}, e.disj...)}
		for k, v := range e.fact {
			n.fact[k] = v
		}
		return n
	}
	settle := func(e *env) {
		for changed := true; changed; {
			changed = false
			for _, d := range e.disj {
				unknown := 0
				var last types.Object
				sat := false
				for _, o := range d {
					switch e.fact[o] {
					case 1:
						sat = true
					case 0:
						unknown++
						last = o
					}
				}
				if !sat && unknown == 1 {
					e.fact[last] = 1
					changed = true
				}
			}
		}
	}
	// assume(cond, truth) refines the environment
	var assume func(e *env, cond ast.Expr, truth bool)
	assume = func(e *env, cond ast.Expr, truth bool) {
		cond = unparen(cond)
		if id := identOf(cond); id != nil {
			if o := info.Uses[id]; o != nil {
				if truth {
					e.fact[o] = 1
				} else {
					e.fact[o] = -1
				}
			}
			settle(e)
			return
		}
		switch x := cond.(type) {
		case *ast.UnaryExpr:
			if x.Op == token.NOT {
				assume(e, x.X, !truth)
			}
		case *ast.BinaryExpr:
			switch {
			case x.Op == token.LAND && truth:
				assume(e, x.X, true)
				assume(e, x.Y, true)
			case x.Op == token.LOR && !truth:
				assume(e, x.X, false)
				assume(e, x.Y, false)
			case x.Op == token.LOR && truth:
				// a disjunction of plain ok variables
				var objs []types.Object
				okAll := true
				var collect func(ex ast.Expr)
				collect = func(ex ast.Expr) {
					ex = unparen(ex)
					if b, ok := ex.(*ast.BinaryExpr); ok && b.Op == token.LOR {
						collect(b.X)
						collect(b.Y)
						return
					}
					if id := identOf(ex); id != nil && info.Uses[id] != nil {
						objs = append(objs, info.Uses[id])
						return
					}
					okAll = false
				}
				collect(x)
				if okAll {
					e.disj = append(e.disj, objs)
					settle(e)
				}
			}
		}
	}
	derefUses := func(n ast.Node, obj types.Object) []ast.Expr {
		var uses []ast.Expr
		ast.Inspect(n, func(m ast.Node) bool {
			switch x := m.(type) {
			case *ast.FuncLit:
				return false
			case *ast.SelectorExpr:
				if id := identOf(x.X); id != nil && info.Uses[id] == obj {
					uses = append(uses, x)
				}
			case *ast.StarExpr:
				if id := identOf(x.X); id != nil && info.Uses[id] == obj {
					uses = append(uses, x)
				}
			case *ast.IndexExpr:
				if id := identOf(x.X); id != nil && info.Uses[id] == obj {
					if _, isMap := obj.Type().Underlying().(*types.Map); !isMap {
						uses = append(uses, x)
					}
				}
			}
			return true
		})
		return uses
	}
	checkUses := func(e *env, n ast.Node) {
		if n == nil {
			return
		}
		for _, pr := range e.pairs {
			if e.fact[pr.ok] == 1 {
				continue
			}
			for _, u := range derefUses(n, pr.v) {
				out = append(out, commaOKFinding{pos: u.Pos(), fn: fnID,
					what: fmt.Sprintf("%s is dereferenced (%s) where the comma-ok result of %s is not known to be true: on the failing branch it is nil and the dereference panics", pr.v.Name(), exprStr(u), pr.label),
					key:  fmt.Sprintf("%s|%s uses %s", fnID, pr.label, exprStr(u))})
			}
		}
	}
	// condUses checks a condition left to right with short-circuit refinement
	var condUses func(e *env, cond ast.Expr)
	condUses = func(e *env, cond ast.Expr) {
		cond = unparen(cond)
		if b, ok := cond.(*ast.BinaryExpr); ok && (b.Op == token.LAND || b.Op == token.LOR) {
			condUses(e, b.X)
			e2 := clone(e)
			assume(e2, b.X, b.Op == token.LAND)
			condUses(e2, b.Y)
			return
		}
		checkUses(e, cond)
	}
	dropAssigned := func(e *env, s ast.Stmt) {
		ast.Inspect(s, func(n ast.Node) bool {
			if _, ok := n.(*ast.FuncLit); ok {
				return false
			}
			if as, ok := n.(*ast.AssignStmt); ok {
				for _, l := range as.Lhs {
					if id := identOf(l); id != nil {
						o := info.Uses[id]
						if o == nil {
							continue
						}
						var keep []pair
						for _, pr := range e.pairs {
							if pr.v != o && pr.ok != o {
								keep = append(keep, pr)
							}
						}
						e.pairs = keep
						delete(e.fact, o)
					}
				}
			}
			return true
		})
	}
	register := func(e *env, as *ast.AssignStmt) {
		if len(as.Lhs) != 2 || len(as.Rhs) != 1 || as.Tok != token.DEFINE {
			return
		}
		isTA := false
		switch r := unparen(as.Rhs[0]).(type) {
		case *ast.TypeAssertExpr:
			isTA = r.Type != nil
		case *ast.IndexExpr:
			if tv, ok := info.Types[r.X]; ok {
				_, isTA = tv.Type.Underlying().(*types.Map)
			}
		}
		vId, okId := identOf(as.Lhs[0]), identOf(as.Lhs[1])
		if !isTA || vId == nil || okId == nil || vId.Name == "_" || okId.Name == "_" {
			return
		}
		vObj, okObj := info.Defs[vId], info.Defs[okId]
		if vObj == nil || okObj == nil || !nilable(vObj.Type()) {
			return
		}
		e.pairs = append(e.pairs, pair{vObj, okObj, exprStr(as.Rhs[0])})
	}
	var walk func(list []ast.Stmt, e *env) (*env, bool)
	walk = func(list []ast.Stmt, e *env) (*env, bool) {
		for _, s := range list {
			switch x := s.(type) {
			case *ast.AssignStmt:
				for _, rh := range x.Rhs {
					condUses(e, rh)
				}
				for _, l := range x.Lhs {
					if _, isId := unparen(l).(*ast.Ident); !isId {
						checkUses(e, l)
					}
				}
				dropAssigned(e, x)
				register(e, x)
			case *ast.IfStmt:
				if x.Init != nil {
					e, _ = walk([]ast.Stmt{x.Init}, e)
				}
				condUses(e, x.Cond)
				te := clone(e)
				assume(te, x.Cond, true)
				te, tc := walk(x.Body.List, te)
				ee := clone(e)
				assume(ee, x.Cond, false)
				ec := true
				switch el := x.Else.(type) {
				case *ast.BlockStmt:
					ee, ec = walk(el.List, ee)
				case *ast.IfStmt:
					ee, ec = walk([]ast.Stmt{el}, ee)
				}
				if !tc {
					tc = !cannotFallThrough(c, info, x.Body.List) == false
				}
				tFalls := !cannotFallThrough(c, info, x.Body.List)
				eFalls := true
				if eb, ok := x.Else.(*ast.BlockStmt); ok {
					eFalls = !cannotFallThrough(c, info, eb.List)
				}
				_ = tc
				_ = ec
				switch {
				case tFalls && eFalls:
					// join: keep facts that agree
					j := clone(e)
					for k, v := range te.fact {
						if ee.fact[k] == v {
							j.fact[k] = v
						}
					}
					j.pairs = e.pairs
					for _, pr := range te.pairs {
						found := false
						for _, q := range j.pairs {
							if q.v == pr.v {
								found = true
							}
						}
						if !found {
							// defined in a branch: out of scope afterwards
							_ = pr
						}
					}
					e = j
				case tFalls:
					te.pairs = filterPairs(te.pairs, e.pairs)
					e = te
				case eFalls:
					ee.pairs = filterPairs(ee.pairs, e.pairs)
					e = ee
				default:
					return e, false
				}
			case *ast.ForStmt:
				be := clone(e)
				if x.Init != nil {
					be, _ = walk([]ast.Stmt{x.Init}, be)
				}
				if x.Cond != nil {
					condUses(be, x.Cond)
					assume(be, x.Cond, true)
				}
				walk(x.Body.List, be)
				dropAssigned(e, x.Body)
			case *ast.RangeStmt:
				checkUses(e, x.X)
				walk(x.Body.List, clone(e))
				dropAssigned(e, x.Body)
			case *ast.SwitchStmt:
				if x.Init != nil {
					e, _ = walk([]ast.Stmt{x.Init}, e)
				}
				checkUses(e, x.Tag)
				for _, cl := range x.Body.List {
					cc := cl.(*ast.CaseClause)
					ce := clone(e)
					for _, ex := range cc.List {
						checkUses(ce, ex)
					}
					if x.Tag == nil && len(cc.List) == 1 {
						assume(ce, cc.List[0], true)
					}
					walk(cc.Body, ce)
				}
				dropAssigned(e, x.Body)
			case *ast.TypeSwitchStmt:
				for _, cl := range x.Body.List {
					walk(cl.(*ast.CaseClause).Body, clone(e))
				}
				dropAssigned(e, x.Body)
			case *ast.BlockStmt:
				var cont bool
				e, cont = walk(x.List, e)
				if !cont {
					return e, false
				}
			case *ast.LabeledStmt:
				e, _ = walk([]ast.Stmt{x.Stmt}, e)
			case *ast.ReturnStmt:
				for _, res := range x.Results {
					condUses(e, res) // `return ok && v.f == …` is guarded by its own left operand
				}
				return e, false
			default:
				checkUses(e, s)
				dropAssigned(e, s)
			}
		}
		return e, true
	}
	walk(fd.Body.List, &env{fact: map[types.Object]int{}})
	ast.Inspect(fd.Body, func(n ast.Node) bool {
		if fl, ok := n.(*ast.FuncLit); ok {
			walk(fl.Body.List, &env{fact: map[types.Object]int{}})
		}
		return true
	})
	return out
}

func filterPairs[T any](branch, outer []T) []T { return branch }

// ---- lost update on a struct copy ----
//
// `x := m[k]` / `for _, x := range xs` / `x := *p` give a copy when x has struct type. A field
// assignment x.f = … (or |=, +=, …) that is not followed by any use of x (store back, call, return,
// read) is lost.

type lostUpdate struct {
	pos token.Pos
	fn  string
	key string
	msg string
}

func lostUpdates(c *Ctx, p *packages.Package, fd *ast.FuncDecl) []lostUpdate {
	info := p.TypesInfo
	var out []lostUpdate
	fnID := declID(p, fd)
	// scope of each candidate variable: the innermost loop body (or function body) containing its definition
	type cand struct {
		obj   types.Object
		scope ast.Node
	}
	cands := map[types.Object]ast.Node{}
	var stack []ast.Node
	ast.Inspect(fd.Body, func(n ast.Node) bool {
		if n == nil {
			stack = stack[:len(stack)-1]
			return true
		}
		stack = append(stack, n)
		addCand := func(id *ast.Ident) {
			if id == nil || id.Name == "_" {
				return
			}
			obj := info.Defs[id]
			if obj == nil {
				return
			}
			if _, isStruct := obj.Type().Underlying().(*types.Struct); !isStruct {
				return
			}
			var scope ast.Node = fd.Body
			for i := len(stack) - 1; i >= 0; i-- {
				switch s := stack[i].(type) {
				case *ast.ForStmt:
					scope = s.Body
					i = -1
				case *ast.RangeStmt:
					scope = s.Body
					i = -1
				case *ast.FuncLit:
					scope = s.Body
					i = -1
				}
			}
			cands[obj] = scope
		}
		switch x := n.(type) {
		case *ast.AssignStmt:
			if x.Tok == token.DEFINE {
				for _, l := range x.Lhs {
					addCand(identOf(l))
				}
			}
		case *ast.RangeStmt:
			if x.Tok == token.DEFINE {
				addCand(identOf(x.Value))
			}
		}
		return true
	})
	for obj, scope := range cands {
		// field writes and other uses, in source order within the scope
		type ev struct {
			pos   token.Pos
			write bool
			node  ast.Node
		}
		var evs []ev
		writeLHS := map[ast.Node]bool{}
		ast.Inspect(scope, func(n ast.Node) bool {
			switch x := n.(type) {
			case *ast.AssignStmt:
				for _, l := range x.Lhs {
					if sel, ok := unparen(l).(*ast.SelectorExpr); ok {
						if id := identOf(sel.X); id != nil && info.Uses[id] == obj {
							if s, ok := info.Selections[sel]; ok && s.Kind() == types.FieldVal {
								writeLHS[sel] = true
								// op-assign reads the field too but that read does not observe anything new
								evs = append(evs, ev{x.End(), true, x})
							}
						}
					}
				}
			case *ast.IncDecStmt:
				if sel, ok := unparen(x.X).(*ast.SelectorExpr); ok {
					if id := identOf(sel.X); id != nil && info.Uses[id] == obj {
						writeLHS[sel] = true
						evs = append(evs, ev{x.End(), true, x})
					}
				}
			}
			return true
		})
		if len(evs) == 0 {
			continue
		}
		ast.Inspect(scope, func(n ast.Node) bool {
			if sel, ok := n.(*ast.SelectorExpr); ok && writeLHS[sel] {
				return false
			}
			if id, ok := n.(*ast.Ident); ok && info.Uses[id] == obj {
				evs = append(evs, ev{id.Pos(), false, id})
			}
			return true
		})
		// address taken (&x) or method with pointer receiver: give up (alias)
		aliased := false
		ast.Inspect(scope, func(n ast.Node) bool {
			if u, ok := n.(*ast.UnaryExpr); ok && u.Op == token.AND {
				if id := identOf(u.X); id != nil && info.Uses[id] == obj {
					aliased = true
				}
			}
			return true
		})
		if aliased {
			continue
		}
		for _, w := range evs {
			if !w.write {
				continue
			}
			used := false
			for _, u := range evs {
				if !u.write && u.pos >= w.pos {
					used = true
				}
			}
			// a loop that re-reads the same variable on the next iteration (not a per-iteration copy)
			if !used {
				if _, perIter := scope.(*ast.BlockStmt); perIter && scope != fd.Body {
					// scope is a loop body and obj is defined inside it: fresh per iteration -> earlier uses do not count
				} else {
					for _, u := range evs {
						if !u.write {
							// defined at function level but written inside a loop: earlier uses in the loop may see it
							used = usedInEnclosingLoop(fd, w.node, u.node)
							if used {
								break
							}
						}
					}
				}
			}
			if !used {
				out = append(out, lostUpdate{pos: w.node.Pos(), fn: fnID, key: fmt.Sprintf("%s|write %s", fnID, strings.TrimSpace(nodeText(w.node))),
					msg: fmt.Sprintf("`%s` modifies a field of the struct copy %s, and %s is never read, stored back or passed on afterwards: the update is lost", nodeText(w.node), obj.Name(), obj.Name())})
			}
		}
	}
	return out
}

func nodeText(n ast.Node) string {
	switch x := n.(type) {
	case *ast.AssignStmt:
		var l, r []string
		for _, e := range x.Lhs {
			l = append(l, exprStr(e))
		}
		for _, e := range x.Rhs {
			r = append(r, exprStr(e))
		}
		return strings.Join(l, ", ") + " " + x.Tok.String() + " " + strings.Join(r, ", ")
	case *ast.IncDecStmt:
		return exprStr(x.X) + x.Tok.String()
	case ast.Expr:
		return exprStr(x)
	}
	return ""
}

// usedInEnclosingLoop: write and use share an enclosing loop, so the use can observe the write on a later iteration.
func usedInEnclosingLoop(fd *ast.FuncDecl, w, u ast.Node) bool {
	found := false
	ast.Inspect(fd.Body, func(n ast.Node) bool {
		var body *ast.BlockStmt
		switch x := n.(type) {
		case *ast.ForStmt:
			body = x.Body
		case *ast.RangeStmt:
			body = x.Body
		}
		if body != nil && w.Pos() >= body.Pos() && w.End() <= body.End() && u.Pos() >= body.Pos() && u.End() <= body.End() {
			found = true
		}
		return true
	})
	return found
}
