#!/bin/sh
# builds the analyser (and goyacc, used by the grammar regeneration rule) offline from the module cache
set -e
here=$(cd "$(dirname "$0")" && pwd)
export GOFLAGS=-mod=mod GOPROXY=off GOSUMDB=off GOTOOLCHAIN=local
unset GOWORK
mkdir -p "$here/bin" "$here/evidence" "$here/out/violations"
(cd "$here/gpycheck" && go build -o "$here/bin/gpycheck" .)
(cd "$here/gpycheck" && go build -o "$here/bin/goyacc" golang.org/x/tools/cmd/goyacc)
echo setup ok
