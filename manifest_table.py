CLAIMS = {
 "C01": ("typed-AST table extraction + sibling-skeleton comparison against a frozen operator table",
         "Decides: operator symbol -> opcode -> handler -> py API -> dunder chain; dispatch skeleton (operand order, reflection guard). "
         "Also decides: the unpack_iterable decision table (store order of UNPACK_SEQUENCE/UNPACK_EX targets). Third-round additions: no Go == between two arbitrary objects outside the identity primitive. Does not decide: computed values, run-time dunder lookup on user classes. Trusted: go/types, the operator table in gpycheck/c01_ops.go.",
         "DESIGN.md §4 C01"),
 "C09": ("must-hold lockset walk + statement-order/pairing analysis over the context lifecycle methods (typed AST)",
         "Decides: release iff admitted in every caller; lifecycle fields only under the context mutex; closed-test and increment in one critical section; "
         "closed set in the critical section that observes quiescence (or before the wait); wait < callbacks < close(done) inside sync.Once; entry points admitted first. "
         "Also decides: close callbacks enumerated from the module table itself (exactly once per module). Third-round additions: the context mutex is released before close callbacks run. Does not decide: liveness/deadlock freedom, re-entrant Close from inside an execution. Trusted: go/types, sync semantics.",
         "DESIGN.md §4 C09"),
 "C05": ("edge-sensitive error-value flow on go/ssa (iterator errors) + symbolic path interpretation of Generator.Send and the yield opcodes",
         "Decides: every consumer of py.Next/Send/M__next__ propagates or classifies (StopIteration only) the error; iteration hubs' errors propagated; generator typestate "
         "(Running bracket, finished stays finished, exception exit finishes, return value carried, send pushed once on resume), yield/return opcode protocol, yield-before-unwind. "
         "Also decides: no ineffective break (tail of a switch case inside a loop) in the iteration hubs. Third-round additions: Running is false at every exit of Send. Does not decide: that the code between two yields is 'exactly the code up to the next yield' (VM semantics); throw()/close() (unimplemented in gpython).",
         "DESIGN.md §4 C05"),
 "C12": ("abstract interpretation of opcode handlers over a symbolic stack vs the compiler's stack-effect table; table/dispatch exhaustiveness; jump-addressing agreement (typed AST)",
         "Decides: per-opcode handler net stack effect = opcodeStackEffect (+stackDepthWalk jump adjustments) on every successful path; every opcode handled and every emitted opcode tabled; "
         "abs/rel jump agreement between emitter and handlers; argument-taking agreement. Also decides: the EndsWithReturn decision table (a trailing label is not a return). Third-round additions: Instructions.Pass decision table. Does not decide: the property's second sentence (depths actually reached at run time), "
         "line-table monotonicity for every program, StackDepth's walk being the maximum over all paths.",
         "DESIGN.md §4 C12"),
 "C02": ("decision-table extraction by symbolic interpretation of the unwinding loop (block type x reason); emission-trace comparison of statement code schemes",
         "Decides: the unwinder's (block, why) table (pop/unwind/pushes/exception-state swap/Lasti/leave) against ceval.c fast_block_end; code schemes of for/while/if/try/with/break/continue/raise/assert/return. "
         "Also decides: the SETUP_WITH decision table (block pushed only after __enter__ returned). Does not decide: END_FINALLY/WITH_CLEANUP stack juggling beyond net effects (C12), __exit__ return-value semantics, traceback content across frames.",
         "DESIGN.md §4 C02"),
 "C04": ("emission-trace comparison of the call-site and function-object protocols (symbolic interpretation of the compiler); grammar-action analysis with an own yacc reader; raise-site census and loop-bound structure of the binders (typed AST)",
         "Decides: push order of callee/positionals/keyword pairs/*/**, opcode by star forms, packed argc; decorators, defaults, kw-defaults, annotations, closure, code, qualname order for MAKE_FUNCTION/MAKE_CLOSURE; arglist actions extend the call node with append; keyword-only defaults stay aligned with their arguments; "
         "each binder (EvalCode, ParseTupleAndKeywords, UnpackTuple, Vm.Call, Method.Call) still contains its TypeError sites for duplicate/unexpected/missing/keyword-only/surplus arguments; EvalCode matches keywords only against the first Argcount+Kwonlyargcount names. "
         "Third-round additions: native special-method wrappers demand the arity of the function they wrap; both parameter counts set together. Does not decide: the binder's index arithmetic in EvalCode (value-dependent), TypeError wording, native signature dispatch beyond its raise sites.",
         "DESIGN.md §4 C04"),
 "C19": ("emission-trace comparison of import statement code schemes; who-may-write and statement-order analysis of the module store and the import function (typed AST)",
         "Decides: IMPORT_NAME/IMPORT_FROM/IMPORT_STAR/POP_TOP schemes and name binding for import forms; the store's module table is written only where a module is created and creation precedes running its code (a module is importable while its body runs); "
         "ImportModuleLevelObject consults the store first by the given name, never reassigns it and registers a source module under it; star import filters underscores only without __all__. Third-round additions: the module's code runs in the module's own dictionary, which is never replaced. Does not decide: which exception a missing module raises; state left by a failing module body; path resolution.",
         "DESIGN.md §4 C19"),
 "C20": ("emission-trace comparison (PRINT_EXPR gating); decision table of the REPL driver by symbolic path enumeration",
         "Decides: PRINT_EXPR only for interactive top-level expression statements; every path of REPL.Run (buffering in continuation mode, entering it on incomplete input with the line buffered, leaving it and clearing the buffer on every other outcome before reporting or running) equals the reviewed table. "
         "Does not decide: equivalence of line-at-a-time and whole-file execution; the incomplete-input decision (matches error text, a value); binding of _.",
         "DESIGN.md §4 C20"),
 "C11": ("recover-barrier recognition, panic-argument classification with exhaustiveness discharge, comma-ok/nil-dereference lint, lost-update lint, compiler-proved bounds checks (go build -d=ssa/check_bce) and unchecked-assertion census against confirmed tables",
         "Decides: each pipeline stage is a recover barrier and nothing that can panic runs outside one; every explicit panic is SyntaxError-family, a re-panic from a barrier, provably unreachable (exhaustive switch) or a confirmed row; "
         "comma-ok results are never dereferenced on the failing branch; struct-copy updates are not lost; every index/slice the Go compiler cannot prove and every unchecked type assertion is a confirmed row. "
         "Also decides: the assembler's give-up limit scales with the instruction count. Third-round additions: Symbols.Update decision table; grammar side of the 'ExtSlice never nested' belief. Does not decide: termination of the lexer/parser, pathological slowness; the confirmed rows are beliefs checked by reading, not proofs.",
         "DESIGN.md §4 C11"),
 "C08": ("SSA scan for stores rooted at package-level variables with call-graph init-only classification; must-hold lockset on the registry; who-may-write censuses for ModuleImpl/Code fields; module-global container sharing analysis",
         "Decides: no run-time write of package-level state outside initialisers/hooks (known finding: repl rebinding vm.PrintExpr); registry accessed under its mutex; module instances get their own containers; ModuleImpl (and anything reached from one through a parameter) and Code are not written after construction; exception fields are stored only by the allocating function (known finding: vm.raise Cause); "
         "no goroutines in the core. Known finding: built-in type dictionaries are writable from Python. Third-round additions: who may call the sanctioned cell writer; census of stores into fields of a *py.Type parameter. Does not decide: data-race freedom of objects contexts share by design (sys.stdout), state reachable only through object graphs (no alias analysis).",
         "DESIGN.md §4 C08"),
 "C18": ("map-iteration commutativity classification (typed AST, callees inlined); SSA scan of the call-graph region of the pipeline for package-level writes and nondeterminism sources",
         "Decides: every map range in the pipeline commutes or is sorted before use; the pipeline region writes no package-level state and consults no clock/random/environment/goroutine. "
         "Assumes: sequential Go without those sources is deterministic; comparison methods of constant types reached through py.Eq are pure (dynamic edges leaving the pipeline packages are not followed).",
         "Third-round additions: package-level arrays written by the pipeline. "
         "DESIGN.md §4 C18"),
 "C06": ("own yacc reader + goyacc regeneration compared as position-free syntax trees; grammar production/action table checks; lexer token-table comparison with a frozen Python 3.4 token table",
         "Decides: y.go is what goyacc generates from grammar.y; operator cascade order, associativity, node construction and flattening discipline; comp_op/augassign tables; operator and keyword tables, longest match, bracket counters and NEWLINE/INDENT gating; "
         "target contexts set in every binding production; Unicode-class / whitespace-folding helpers only at reviewed sites in package parser (exact character classes). Third-round additions: per-iteration flags cleared where consumed; no dead grammar attributes; ExtSlice nesting guarded by isExpr. Does not decide: literal values (escape decoding, number conversion), indentation arithmetic, completeness of rejection — functions of input bytes.",
         "DESIGN.md §4 C06"),
 "C10": ("recover-barrier recognition and coverage (typed AST): barrier-first in RunFrame/EvalCode/py.Call, single handler dispatch site under a barrier, hooks bound to barrier functions, delivery shape of the deferred closures, census of process-exit calls and goroutines",
         "Decides: every execution path from the run/call API to opcode handlers and builtins passes through a barrier that converts a recovered panic into the returned error; no goroutine / os.Exit / log.Fatal escape route in library code. "
         "Also checks for a recursion bound on the frame evaluator's call cycle (known finding: absent). Third-round additions: the admission count is released by a deferred call (C10.R5). Does not decide: that no builtin panics (the barriers hold them back; they surface as SystemError), nor the exception class delivered for an internal fault.",
         "DESIGN.md §4 C10"),
 "C03": ("decision-table extraction by symbolic interpretation (AnalyzeName, AddDef, NameOp) against tables transcribed from CPython symtable.c/compile.c; statement-order and aliasing rules for AnalyzeChildBlock/EvalCode",
         "Decides: the scope classification table (flags x block kind x enclosing sets -> scope), the definition table (AddDef), scope x context -> opcode family and index space (NameOp), child-block analysis on copies of the parent's sets, "
         "cell/free slot layout agreement between compiler, closure builder and EvalCode. Also decides: the AnalyzeBlock decision table (class-block copies before own names) and that every total_args is Argcount+Kwonlyargcount. Third-round additions: both parameter counts of a code object set together; decision tables of the name opcodes and Frame.Lookup/LookupGlobal. Does not decide: run-time lookup order in LOAD_NAME/LOAD_GLOBAL for a particular program (values), name mangling (unimplemented in gpython).",
         "DESIGN.md §4 C03"),
 "C13": ("may-alias (storage-sharing) propagation on go/ssa with per-function summaries; typed-AST structure rules on the slice normaliser and its consumers",
         "Decides: the clause 'results never alias a mutable operand' as a census — no function of py/vm/stdlib returns or keeps storage shared with a container argument unless on a reviewed list; no view of the VM value stack becomes an object; no append onto an immutable operand's array. "
         "Structural necessary conditions of the index model: start/stop normalised symmetrically with clips equal to the defaults of the step sign; extended slices walked direction-agnostically; start/stop ordered before use as Go slice bounds; one normalisation point (only Slice reads its fields); concatenation copies laid out cumulatively. "
         "Third-round additions: range ==; __ne__ complements __eq__; list slice assignment never reads its operand's array in place. Does not decide: the values of indexing/slicing results for all indices (arithmetic on run-time integers), comparison/ordering/membership results, str/bytes specifics, exception choice.",
         "DESIGN.md §4 C13"),
 "C17": ("may-alias (storage-sharing) propagation on go/ssa with per-function summaries; identity obligations for in-place operators and the list iterator",
         "Decides: the aliasing clause — copies (list(x), x+y, x[a:b], x.copy(), dict(**kw), set(x), tuple(list), type(name,bases,ns)) never share backing storage with their operands, f(**d) passes a new dict, in-place operators of mutable containers evaluate to the receiver, the list iterator refers to the list itself. "
         "Third-round additions: list slice assignment reads its operand before mutating; decision tables of List.M__setitem__/M__delitem__, Set.inPlace and the sort comparison. Does not decide: equality of every observation with a reference model over histories (values), dict/set element semantics, mutation of a container while it is its own operand (e.g. a[2:3] = a).",
         "DESIGN.md §4 C17"),
 "C07": ("typed-AST guard analysis (structured dominance) of partial machine operators; constant evaluation by the type checker; operator/comparison/reflection tables; type-switch reachability",
         "Decides necessary structural conditions of exact integer arithmetic: representation constants (IntMax, IntMin, sqrtIntMax = isqrt(IntMax)); every -x on a word excludes IntMin, every / and % tests the divisor (and IntMin / -1), every shift by a converted signed count tests < 0, every big.Int division tests the sign; "
         "overflow guards compare in the direction of the limit they mention; each of the six comparisons of Int/BigInt/Bool uses its own operator; reflected non-commutative methods exchange the operands; the floor-division fix-up depends on the divisor's sign; no type-switch arm is shadowed. "
         "Also decides: mutating math/big calls only on receivers the function allocated. Does not decide: the numerical results themselves (2**128 operand pairs), text conversion digit by digit, pow/three-argument pow, the correctness of the bounds inside a guard beyond direction and the frozen constants.",
         "DESIGN.md §4 C07"),
 "C15": ("typed-AST guard analysis of float/complex division; comparison/reflection tables; protocol and tower-coverage checks; constant-exactness and threshold evaluation by the type checker",
         "Decides necessary structural conditions: float and complex /, //, % test the divisor and raise ZeroDivisionError; Float/Complex comparisons use their own operator; reflected methods exchange operands; numeric binary methods answer NotImplemented for operands they cannot convert; "
         "the conversion functions cover the numeric tower; float text form tests nan/inf before Go formatting and does not detour through a machine integer; an integer limit used as a float bound is exactly representable or excluded; the remainder fix-up depends on the divisor's sign; BigInt.Float's threshold cannot reach +Inf. "
         "Third-round additions: float round() never computes or compares with an inexact power of ten (R10). Does not decide: IEEE results, exactness of int/float comparison (known to be lossy for |n| > 2**53: convertToFloat rounds), shortest round-trip text, correctness of round() digits, sum/min/max folding.",
         "DESIGN.md §4 C15"),
 "C14": ("per-function unit inference (character counts vs byte offsets) over the typed AST of the string code; writer/reader escape-table agreement; constant evaluation",
         "Decides: Go string slices/indexes use byte offsets only (or sit under an ASCII guard), String.pos/slice receive character positions only, the two index spaces are never added, positions returned to Python count characters, a one-byte window stands for a character only under an ASCII guard; "
         "every escape form repr writes is decoded by the literal reader with the same width; chr() rejects exactly from 0x110000; the one-element tuple repr has its comma. "
         "Also decides: every return of StringEscape lies after its per-character loop. Third-round additions: StringEscape decision table per character class; ascii-mode paths write only characters below 0x7F raw. Does not decide: the results of search/split/strip/replace for all strings, comparison order, the full repr/eval round trip for every value (floats and nested containers are values), normalisation of negative start/end in count/find.",
         "DESIGN.md §4 C14"),
 "C16": ("typed-AST phase-order analysis of the generic attribute read; decision tables of the binding methods by symbolic path enumeration; call-graph reachability; loop-bound structure of the C3 merge; storage-sharing analysis on class creation",
         "Decides: a class read consults the class's own MRO and binds with __get__(None, class); the phases of the generic read come in the defined order with the defined __get__ arguments; Function/Method bind the instance, ClassMethod the class, StaticMethod nothing; "
         "isinstance decides through the MRO walk; the C3 rejection loop ranges over all lists and restarts after acceptance; type(name, bases, ns) copies ns; generic write/delete touch only the object's own dictionary. "
         "Does not decide: that the C3 result is the right linearisation for every DAG (algorithmic), data-descriptor precedence (not implemented in gpython), special-method lookup via Go interfaces, metaclass conflicts.",
         "DESIGN.md §4 C16"),
}
_todo = "rules for this property are designed (DESIGN.md §4) but not yet implemented in this revision of the checker"
NA = {}
