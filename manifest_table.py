CLAIMS = {
 "C01": ("typed-AST table extraction + sibling-skeleton comparison against a frozen operator table",
         "Decides: operator symbol -> opcode -> handler -> py API -> dunder chain; dispatch skeleton (operand order, reflection guard). "
         "Does not decide: computed values, run-time dunder lookup on user classes. Trusted: go/types, the operator table in gpycheck/c01_ops.go.",
         "DESIGN.md §4 C01"),
 "C09": ("must-hold lockset walk + statement-order/pairing analysis over the context lifecycle methods (typed AST)",
         "Decides: release iff admitted in every caller; lifecycle fields only under the context mutex; closed-test and increment in one critical section; "
         "closed set in the critical section that observes quiescence (or before the wait); wait < callbacks < close(done) inside sync.Once; entry points admitted first. "
         "Does not decide: liveness/deadlock freedom, re-entrant Close from inside an execution. Trusted: go/types, sync semantics.",
         "DESIGN.md §4 C09"),
}
_todo = "rules for this property are designed (DESIGN.md §4) but not yet implemented in this revision of the checker"
NA = {p: _todo for p in ["C02","C03","C04","C05","C06","C07","C08","C10","C11","C12","C13","C14","C15","C16","C17","C18","C19","C20"]}
